/* Contracts for the clamp layer (lib/core/covfie/core/backend/transformer/clamp.hpp).  C10:
 * for every coordinate value whatsoever (type extremes, infinities) the backend is queried exactly once at
 * the component-wise clamp of the coordinate to the configured box, and that value is returned. */
#include "layer_common.h"
typedef struct { IN_VEC_T m_min, m_max; } CLAMP_SELF_T;
#ifdef VERIF_FLOATING
#define NOT_NAN(x) ((x) == (x))
#else
#define NOT_NAN(x) 1
#endif
/* std::clamp(v, lo, hi) [alg.clamp]: lo if v < lo, hi if hi < v, otherwise v; precondition !(hi < lo).
 * ASSUMPTION about libstdc++ (stub). */
static IN_SCALAR_T verif_std_clamp(IN_SCALAR_T v, IN_SCALAR_T lo, IN_SCALAR_T hi)
{
  __CPROVER_assert(!(hi < lo), "std::clamp precondition: !(hi < lo)");
  return (v < lo) ? lo : (hi < v) ? hi : v;
}
#define CLAMPED(v, lo, hi) ((v) < (lo) ? (lo) : (hi) < (v) ? (hi) : (v))
#define CLAMP_BOX_OK_K(k, self) (NOT_NAN((self)->m_min.m_data[k]) && NOT_NAN((self)->m_max.m_data[k]) && (self)->m_min.m_data[k] <= (self)->m_max.m_data[k])
#define CLAMP_C_OK_K(k, c) NOT_NAN((c).m_data[k])
#define CLAMP_RES_K(k, r, self, c) \
  ((r).m_data[k] == CLAMPED((c).m_data[k], (self)->m_min.m_data[k], (self)->m_max.m_data[k]) && \
   (self)->m_min.m_data[k] <= (r).m_data[k] && (r).m_data[k] <= (self)->m_max.m_data[k])

#define CONTRACT_clamp_adjust(self, coord) \
  __CPROVER_requires(VERIF_ALL(DIMS_IN, CLAMP_BOX_OK_K, self) && VERIF_ALL(DIMS_IN, CLAMP_C_OK_K, coord)) \
  __CPROVER_ensures(VERIF_ALL(DIMS_IN, CLAMP_RES_K, __CPROVER_return_value, self, coord)) \
  __CPROVER_assigns()

#define CONTRACT_clamp_at(self, coord) \
  __CPROVER_requires(VERIF_ALL(DIMS_IN, CLAMP_BOX_OK_K, self) && VERIF_ALL(DIMS_IN, CLAMP_C_OK_K, coord)) \
  __CPROVER_requires(verif_b_calls == 0) \
  __CPROVER_ensures(verif_b_calls == 1) \
  __CPROVER_ensures(VERIF_ALL(DIMS_IN, CLAMP_RES_K, verif_b_arg[0], self, coord)) \
  __CPROVER_ensures(OUT_EQ(__CPROVER_return_value, verif_b_result)) \
  __CPROVER_assigns(VERIF_B_GHOSTS)
