/* Contracts for lib/core/covfie/core/utility/binary_io.hpp.
 * C08: a stream that ends early, or whose magic / tag words differ, makes the reader THROW; the returned value
 * is always a function of bytes actually read.  C06/C07: writers emit LE32(magic) ++ LE32(tag) (header) and
 * LE32(footer magic) ++ LE32(tag + 0x20000000) (footer) -- the byte grammar of the pinned revision is written
 * here, so a consistent change of reader and writer still fails the writer's postcondition. */
#include "../stubs/stream.h"

/* the static constexpr objects of binary_io.hpp, with the values g++ evaluates from the real header */
static const uint32_t verif_magic_header_obj = VERIF_MAGIC_HEADER;
static const uint32_t verif_magic_footer_obj = VERIF_MAGIC_FOOTER;

/* golden layout of the pinned revision (NOT taken from the code under verification) */
#define GOLDEN_MAGIC_HEADER 0xC04F1EABu
#define GOLDEN_MAGIC_FOOTER 0xC04F1E70u
#define GOLDEN_FOOTER_OFFSET 0x20000000u

#define RB_FRAME(fs) __CPROVER_assigns((fs)->pos, (fs)->failbit, (fs)->eofbit, verif_thrown)
#define RB_PRE(fs) \
  __CPROVER_requires(ISTREAM_VALID(fs) && !(fs)->failbit && !(fs)->eofbit && verif_thrown == 0) \
  __CPROVER_requires(__CPROVER_is_fresh((fs)->buf, (fs)->len))
#define RB_COMMON(fs, n) \
  RB_PRE(fs) \
  __CPROVER_ensures((((fs)->len - __CPROVER_old((fs)->pos)) < (n)) == (verif_thrown != 0)) \
  __CPROVER_ensures(verif_thrown == 0 ==> ((fs)->pos == __CPROVER_old((fs)->pos) + (n) && !(fs)->failbit && !(fs)->eofbit)) \
  __CPROVER_ensures((fs)->pos <= (fs)->len) \
  RB_FRAME(fs)

#define CONTRACT_read_binary_u32(fs) RB_COMMON(fs, 4) \
  __CPROVER_ensures(verif_thrown == 0 ==> __CPROVER_return_value == LE32_AT((fs)->buf, (fs)->pos - 4))
#define CONTRACT_read_binary_u64(fs) RB_COMMON(fs, 8) \
  __CPROVER_ensures(verif_thrown == 0 ==> __CPROVER_return_value == LE64_AT((fs)->buf, (fs)->pos - 8))
static uint32_t verif_f32_bits(float f) { union { float f; uint32_t u; } x; x.f = f; return x.u; }
static uint64_t verif_f64_bits(double f) { union { double f; uint64_t u; } x; x.f = f; return x.u; }
#define CONTRACT_read_binary_f32(fs) RB_COMMON(fs, 4) \
  __CPROVER_ensures(verif_thrown == 0 ==> verif_f32_bits(__CPROVER_return_value) == LE32_AT((fs)->buf, (fs)->pos - 4))
#define CONTRACT_read_binary_f64(fs) RB_COMMON(fs, 8) \
  __CPROVER_ensures(verif_thrown == 0 ==> verif_f64_bits(__CPROVER_return_value) == LE64_AT((fs)->buf, (fs)->pos - 8))

/* header / footer readers: throw iff fewer than 8 bytes, wrong magic, or wrong tag */
#define HDR_OK(fs, p0, magic, tag) \
  ((fs)->len - (p0) >= 8 && LE32_AT((fs)->buf, (p0)) == (magic) && LE32_AT((fs)->buf, (p0) + 4) == (tag))
#define CONTRACT_read_io_header(fs, hdr) \
  RB_PRE(fs) \
  __CPROVER_ensures((verif_thrown == 0) == HDR_OK(fs, __CPROVER_old((fs)->pos), GOLDEN_MAGIC_HEADER, hdr)) \
  __CPROVER_ensures(verif_thrown == 0 ==> ((fs)->pos == __CPROVER_old((fs)->pos) + 8 && !(fs)->failbit && !(fs)->eofbit)) \
  __CPROVER_ensures((fs)->pos <= (fs)->len) \
  __CPROVER_ensures(__CPROVER_return_value == (fs)) \
  RB_FRAME(fs)
#define CONTRACT_read_io_footer(fs, ftr) \
  RB_PRE(fs) \
  __CPROVER_ensures((verif_thrown == 0) == HDR_OK(fs, __CPROVER_old((fs)->pos), GOLDEN_MAGIC_FOOTER, (uint32_t)((ftr) + GOLDEN_FOOTER_OFFSET))) \
  __CPROVER_ensures(verif_thrown == 0 ==> ((fs)->pos == __CPROVER_old((fs)->pos) + 8 && !(fs)->failbit && !(fs)->eofbit)) \
  __CPROVER_ensures((fs)->pos <= (fs)->len) \
  __CPROVER_ensures(__CPROVER_return_value == (fs)) \
  RB_FRAME(fs)

/* writers */
#define OSTREAM_VALID(fs) ((fs)->len <= (fs)->cap && (fs)->cap <= VERIF_STREAM_MAX)
#define WB_PRE(fs, n) \
  __CPROVER_requires(OSTREAM_VALID(fs) && (fs)->cap - (fs)->len >= (n)) \
  __CPROVER_requires(__CPROVER_is_fresh((fs)->buf, (fs)->cap))
#define CONTRACT_write_io_header(fs, hdr) \
  WB_PRE(fs, 8) \
  __CPROVER_ensures((fs)->len == __CPROVER_old((fs)->len) + 8) \
  __CPROVER_ensures(LE32_AT((fs)->buf, (fs)->len - 8) == GOLDEN_MAGIC_HEADER && LE32_AT((fs)->buf, (fs)->len - 4) == (hdr)) \
  __CPROVER_ensures(__CPROVER_return_value == (fs)) \
  __CPROVER_assigns((fs)->len, __CPROVER_object_from((fs)->buf + (fs)->len))
#define CONTRACT_write_io_footer(fs, ftr) \
  WB_PRE(fs, 8) \
  __CPROVER_ensures((fs)->len == __CPROVER_old((fs)->len) + 8) \
  __CPROVER_ensures(LE32_AT((fs)->buf, (fs)->len - 8) == GOLDEN_MAGIC_FOOTER && LE32_AT((fs)->buf, (fs)->len - 4) == (uint32_t)((ftr) + GOLDEN_FOOTER_OFFSET)) \
  __CPROVER_ensures(__CPROVER_return_value == (fs)) \
  __CPROVER_assigns((fs)->len, __CPROVER_object_from((fs)->buf + (fs)->len))
