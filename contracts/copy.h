/* Contracts for the per-element bodies of the re-layout conversions (C05): the nd_map callbacks of
 * make_strided_copy / make_morton_copy / make_hilbert_copy.  For the index tuple t handed in by nd_map the body
 * must write   res[index_L(t)][0..M) := src(t)   and nothing else, where index_L is the SAME map the layer's
 * lookup uses (C14) -- conversions write where lookups read.  Cell binds COPY_LAYER (1 strided, 2 morton,
 * 3 hilbert), DIMS_IN (N), DIMS_OUT (M, independent of N), OUT_SCALAR_T. */
#include "../stubs/types.h"
OUT_VEC_T verif_src_value;      /* ghost: the source field's value at t */
unsigned verif_src_calls;       /* ghost */
_Bool verif_src_arg_ok;         /* ghost: every query of the source was at coordinate t */
ND_SIZE_T verif_t;              /* ghost: the tuple of this invocation */
size_t verif_ghost_G;           /* ghost: an arbitrary cell of the destination */
unsigned verif_ghost_q;         /* ghost: an arbitrary component */
OUT_SCALAR_T verif_old_cell;    /* ghost: res[G][q] before the call */
size_t verif_res_cells;         /* ghost: number of cells of the destination buffer */
size_t verif_expected_idx;      /* ghost (hilbert): curve position of t computed by the harness with the real index function */
#define SRC_ARG_K(k, x) ((size_t)(x).m_data[k] == verif_t.m_data[k])
static OUT_VEC_T source_at(IN_VEC_T x)      /* T::parent_t::non_owning_data_t::at of the source field (abstract) */
{
  verif_src_calls++;
  if (!VERIF_ALL(DIMS_IN, SRC_ARG_K, x)) verif_src_arg_ok = 0;
  return verif_src_value;
}
static OUT_VEC_T source_at_nd(ND_SIZE_T x)
{
  verif_src_calls++;
  if (!VERIF_ALL(DIMS_IN, SRC_ARG_K, x)) verif_src_arg_ok = 0;
  return verif_src_value;
}
/* the tuple lies in the box, and (domain) it is representable in the coordinate scalar type of the destination layer */
#define T_IN_BOX_K(k, t, sizes) ((t).m_data[k] < (sizes).m_data[k] && (size_t)(IN_SCALAR_T)(t).m_data[k] == (t).m_data[k] && (IN_SCALAR_T)(t).m_data[k] >= 0)

#if COPY_LAYER == 2
#include "morton.h"
#define COPY_IS_TARGET(G, t) MORTON_INTERLEAVED_V(G, t, vq1)
#define COPY_IS_TARGET2(G, t) MORTON_INTERLEAVED_V(G, t, vq2)
/* destination limited to 2^40 cells (the verifier's object-size limit; k*N <= 40) */
#define COPY_PRE(sizes, t) (MORTON_INV(sizes) && verif_res_cells == verif_b_size && verif_res_cells <= ((size_t)1 << 40))
#elif COPY_LAYER == 1
#define WIDE_T size_t
#define IN_SCALAR_T size_t
#define ROWMAJOR_K_(t, s, k) ((t).m_data[k])
#if DIMS_IN == 1
#define ROWMAJOR(t, s) ((t).m_data[0])
#elif DIMS_IN == 2
#define ROWMAJOR(t, s) ((t).m_data[0] * (s).m_data[1] + (t).m_data[1])
#elif DIMS_IN == 3
#define ROWMAJOR(t, s) ((t).m_data[0] * (s).m_data[1] * (s).m_data[2] + (t).m_data[1] * (s).m_data[2] + (t).m_data[2])
#elif DIMS_IN == 4
#define ROWMAJOR(t, s) ((t).m_data[0] * (s).m_data[1] * (s).m_data[2] * (s).m_data[3] + (t).m_data[1] * (s).m_data[2] * (s).m_data[3] + (t).m_data[2] * (s).m_data[3] + (t).m_data[3])
#endif
#define COPY_IS_TARGET(G, t) ((G) == ROWMAJOR(t, sizes))
#define COPY_IS_TARGET2(G, t) COPY_IS_TARGET(G, t)
/* bounded cell: every extent <= 16 (the bound/injectivity of the row-major map is nonlinear, see C01) */
#define EXT_OK_K(k, s) ((s).m_data[k] >= 1 && (s).m_data[k] <= 16)
#if DIMS_IN == 1
#define PRODSZ(s) ((s).m_data[0])
#elif DIMS_IN == 2
#define PRODSZ(s) ((s).m_data[0] * (s).m_data[1])
#elif DIMS_IN == 3
#define PRODSZ(s) ((s).m_data[0] * (s).m_data[1] * (s).m_data[2])
#elif DIMS_IN == 4
#define PRODSZ(s) ((s).m_data[0] * (s).m_data[1] * (s).m_data[2] * (s).m_data[3])
#endif
#define COPY_PRE(sizes, t) (VERIF_ALL(DIMS_IN, EXT_OK_K, sizes) && verif_res_cells == PRODSZ(sizes))
#endif

#if COPY_LAYER == 3
/* Hilbert: one cell per curve order k; the target cell is the curve position of t computed by the harness with the
 * real index function (which C14/C01 verify: in range, injective); the destination has 4^k cells. */
#define IN_SCALAR_T size_t
#define HSIDE ((size_t)1 << HILBERT_K)
#define H_SIZES_OK(s) ((s).m_data[0] >= 1 && (s).m_data[1] >= 1 && (s).m_data[0] <= HSIDE && (s).m_data[1] <= HSIDE && \
                       (HILBERT_K == 0 || (s).m_data[0] > HSIDE / 2 || (s).m_data[1] > HSIDE / 2))
#define COPY_IS_TARGET(G, t) ((G) == verif_expected_idx)
#define COPY_IS_TARGET2(G, t) COPY_IS_TARGET(G, t)
#define COPY_PRE(sizes, t) (H_SIZES_OK(sizes) && verif_res_cells == HSIDE * HSIDE && verif_expected_idx < HSIDE * HSIDE)
#endif

#define COPY_CONTRACT(res, sizes, t) \
  __CPROVER_requires(COPY_PRE(sizes, t) && VERIF_ALL(DIMS_IN, T_IN_BOX_K, t, sizes)) \
  __CPROVER_requires(__CPROVER_is_fresh(res, verif_res_cells * sizeof(OUT_VEC_T))) \
  __CPROVER_requires(verif_ghost_G < verif_res_cells && verif_ghost_q < DIMS_OUT && verif_src_calls == 0 && verif_src_arg_ok) \
  __CPROVER_requires(VERIF_ALL(DIMS_IN, T_IS_GHOST_K, t) && __CPROVER_equal((res)[verif_ghost_G].m_data[verif_ghost_q], verif_old_cell)) \
  __CPROVER_ensures(COPY_IS_TARGET(verif_ghost_G, t) ==> __CPROVER_equal((res)[verif_ghost_G].m_data[verif_ghost_q], verif_src_value.m_data[verif_ghost_q])) \
  __CPROVER_ensures(!COPY_IS_TARGET2(verif_ghost_G, t) ==> __CPROVER_equal((res)[verif_ghost_G].m_data[verif_ghost_q], verif_old_cell)) \
  __CPROVER_ensures(verif_src_calls >= 1 && verif_src_arg_ok) \
  __CPROVER_assigns(__CPROVER_object_whole(res), verif_src_calls, verif_src_arg_ok)
#define T_IS_GHOST_K(k, t) ((t).m_data[k] == verif_t.m_data[k])
#define CONTRACT_morton_copy_elem(res, sizes, t) COPY_CONTRACT(res, sizes, t)
#define CONTRACT_strided_copy_elem(res, sizes, t) COPY_CONTRACT(res, sizes, t)
#define CONTRACT_hilbert_copy_elem(res, sizes, t) COPY_CONTRACT(res, sizes, t)
