/* Contracts for the backup layer (lib/core/covfie/core/backend/transformer/backup.hpp).  C11:
 * the configured default is returned, without querying the backend, when any component lies outside the
 * closed box; otherwise exactly the backend's value at that coordinate. */
#include "layer_common.h"
typedef struct { IN_VEC_T m_min, m_max; OUT_VEC_T m_default; } BACKUP_SELF_T;
#ifdef VERIF_FLOATING
#define NOT_NAN(x) ((x) == (x))
#else
#define NOT_NAN(x) 1
#endif
#define BACKUP_OUTSIDE_K(k, self, c) ((c).m_data[k] < (self)->m_min.m_data[k] || (c).m_data[k] > (self)->m_max.m_data[k])
#define BACKUP_DOM_K(k, self, c) (NOT_NAN((c).m_data[k]) && NOT_NAN((self)->m_min.m_data[k]) && NOT_NAN((self)->m_max.m_data[k]))
#define ARG_IS_C_K(k, a, c) __CPROVER_equal((a).m_data[k], (c).m_data[k])
#define CONTRACT_backup_at(self, coord) \
  __CPROVER_requires(VERIF_ALL(DIMS_IN, BACKUP_DOM_K, self, coord)) \
  __CPROVER_requires(verif_b_calls == 0) \
  __CPROVER_ensures(VERIF_ANY(DIMS_IN, BACKUP_OUTSIDE_K, self, coord) ==> \
                    (verif_b_calls == 0 && OUT_EQ(__CPROVER_return_value, (self)->m_default))) \
  __CPROVER_ensures(!VERIF_ANY(DIMS_IN, BACKUP_OUTSIDE_K, self, coord) ==> \
                    (verif_b_calls == 1 && VERIF_ALL(DIMS_IN, ARG_IS_C_K, verif_b_arg[0], coord) && OUT_EQ(__CPROVER_return_value, verif_b_result))) \
  __CPROVER_assigns(VERIF_B_GHOSTS)
