/* Contracts for the row-major layer (lib/core/covfie/core/backend/transformer/strided.hpp).
 * Cell binds DIMS_IN (N), IN_SCALAR_T (coordinate scalar), optionally VERIF_SIZE_T (width-reduced
 * instantiation of std::size_t, 8-bit cells only).
 * Postcondition = C14: coordinate (c1..cN) is stored at flat position sum_k c_k * prod_{l>k} N_l. */
#include "../stubs/types.h"
typedef struct { ND_SIZE_T m_sizes; } STRIDED_SELF_T;
typedef struct verif_elem *OUT_VEC_PTR_T;
#define B_IN_T VERIF_SIZE_T
#define B_RET_T OUT_VEC_PTR_T
OUT_VEC_PTR_T verif_b_result;   /* ghost: what B returns */
VERIF_SIZE_T verif_b_size;      /* ghost: B's domain is [0, verif_b_size) */
#ifdef VERIF_B_NODOMAIN
#define VERIF_B_DOMAIN(x) 1
#else
#define VERIF_B_DOMAIN(x) ((x) < verif_b_size)
#endif
#define VERIF_B_VALUE(x) verif_b_result

#define S_(self, l) ((IN_SCALAR_T)(self)->m_sizes.m_data[l])
#define C_(c, k) ((c).m_data[k])
/* the row-major position, evaluated in the coordinate scalar type as the property states it */
#if DIMS_IN == 1
#define STRIDED_SPEC(self, c) ((IN_SCALAR_T)(C_(c, 0)))
#define STRIDED_PROD(self) ((WIDE_T)(self)->m_sizes.m_data[0])
#elif DIMS_IN == 2
#define STRIDED_SPEC(self, c) ((IN_SCALAR_T)((IN_SCALAR_T)(C_(c, 0) * S_(self, 1)) + C_(c, 1)))
#define STRIDED_PROD(self) ((WIDE_T)(self)->m_sizes.m_data[0] * (WIDE_T)(self)->m_sizes.m_data[1])
#elif DIMS_IN == 3
#define STRIDED_SPEC(self, c) ((IN_SCALAR_T)((IN_SCALAR_T)((IN_SCALAR_T)((IN_SCALAR_T)(C_(c, 0) * S_(self, 1)) * S_(self, 2)) + (IN_SCALAR_T)(C_(c, 1) * S_(self, 2))) + C_(c, 2)))
#define STRIDED_PROD(self) ((WIDE_T)(self)->m_sizes.m_data[0] * (WIDE_T)(self)->m_sizes.m_data[1] * (WIDE_T)(self)->m_sizes.m_data[2])
#elif DIMS_IN == 4
#define STRIDED_SPEC(self, c) ((IN_SCALAR_T)((IN_SCALAR_T)((IN_SCALAR_T)((IN_SCALAR_T)((IN_SCALAR_T)((IN_SCALAR_T)(C_(c, 0) * S_(self, 1)) * S_(self, 2)) * S_(self, 3)) + (IN_SCALAR_T)((IN_SCALAR_T)(C_(c, 1) * S_(self, 2)) * S_(self, 3))) + (IN_SCALAR_T)(C_(c, 2) * S_(self, 3))) + C_(c, 3)))
#define STRIDED_PROD(self) ((WIDE_T)(self)->m_sizes.m_data[0] * (WIDE_T)(self)->m_sizes.m_data[1] * (WIDE_T)(self)->m_sizes.m_data[2] * (WIDE_T)(self)->m_sizes.m_data[3])
#endif

#define STRIDED_IN_RANGE_K(k, self, c) ((c).m_data[k] >= 0 && (VERIF_SIZE_T)(c).m_data[k] < (self)->m_sizes.m_data[k])
#define STRIDED_IN_RANGE(self, c) VERIF_ALL(DIMS_IN, STRIDED_IN_RANGE_K, self, c)

#ifdef VERIF_STRIDED_BOUND
/* width-reduced / bounded cells: representation invariant "storage has prod(sizes) cells and that
 * product is representable" (WIDE_T is wide enough to hold the exact product) */
#define STRIDED_EXTENT_OK_K(k, self) ((self)->m_sizes.m_data[k] >= 1 && (self)->m_sizes.m_data[k] <= VERIF_EXTENT_MAX)
#define STRIDED_INV(self) \
  (VERIF_ALL(DIMS_IN, STRIDED_EXTENT_OK_K, self) && \
   STRIDED_PROD(self) <= (WIDE_T)VERIF_PROD_MAX && (WIDE_T)verif_b_size == STRIDED_PROD(self))
#else
#define STRIDED_INV(self) 1
#endif

#define CONTRACT_strided_at(self, c) \
  __CPROVER_requires(STRIDED_INV(self)) \
  __CPROVER_requires(STRIDED_IN_RANGE(self, c)) \
  __CPROVER_requires(verif_b_calls == 0) \
  __CPROVER_ensures(verif_b_calls == 1) \
  __CPROVER_ensures(verif_b_arg[0] == (VERIF_SIZE_T)STRIDED_SPEC(self, c)) \
  __CPROVER_ensures(__CPROVER_return_value == verif_b_result) \
  __CPROVER_assigns(VERIF_B_GHOSTS)

/* allocation size: std::accumulate(begin, end, 1, multiplies<size_t>) = product of the extents */
#if DIMS_IN == 1
#define PROD_SZ(s) ((size_t)(s).m_data[0])
#elif DIMS_IN == 2
#define PROD_SZ(s) ((size_t)((s).m_data[0] * (s).m_data[1]))
#elif DIMS_IN == 3
#define PROD_SZ(s) ((size_t)((size_t)((s).m_data[0] * (s).m_data[1]) * (s).m_data[2]))
#elif DIMS_IN == 4
#define PROD_SZ(s) ((size_t)((size_t)((size_t)((s).m_data[0] * (s).m_data[1]) * (s).m_data[2]) * (s).m_data[3]))
#endif
#define CONTRACT_strided_alloc_size_copy(sizes) __CPROVER_ensures(__CPROVER_return_value == PROD_SZ(sizes)) __CPROVER_assigns()
#define CONTRACT_strided_alloc_size_ctor(m_sizes) __CPROVER_ensures(__CPROVER_return_value == PROD_SZ(m_sizes)) __CPROVER_assigns()
#define CONTRACT_strided_alloc_size_conf(m_sizes) __CPROVER_ensures(__CPROVER_return_value == PROD_SZ(m_sizes)) __CPROVER_assigns()
