/* Contracts for the per-layer serialisers with an nd_size configuration: strided, morton, hilbert
 * (read_binary / write_binary of their owning_data_t).  Golden grammar of the pinned revision:
 *   LE32(C04F1EAB) LE32(tag)  N x LE64(extent)  <image of the inner backend>  LE32(C04F1E70) LE32(tag + 20000000)
 * with tag = AB020010 (strided), AB020006 (morton), AB020004 (hilbert).  Cell binds DIMS_IN and LAYER (1,2,3). */
#include "../stubs/types.h"
#include "binary_io.h"
#include "../stubs/backend_io.h"
#if LAYER == 1
#define GOLDEN_TAG 0xAB020010u
#define CODE_TAG VERIF_TAG_STRIDED
#elif LAYER == 2
#define GOLDEN_TAG 0xAB020006u
#define CODE_TAG VERIF_TAG_MORTON
#elif LAYER == 3
#define GOLDEN_TAG 0xAB020004u
#define CODE_TAG VERIF_TAG_HILBERT
#endif
static const uint32_t verif_layer_tag_obj = CODE_TAG;   /* the layer's static constexpr IO_MAGIC_HEADER as g++ evaluates it */
typedef struct { ND_SIZE_T m_sizes; B_OWN_T m_storage; } LAYER_OWN_T;
/* owning_data_t(const configuration_t & c, backend_t::owning_data_t && b): m_sizes(c), m_storage(move(b))  (constructor, not extracted) */
static LAYER_OWN_T verif_layer_own_ctor(ND_SIZE_T c, B_OWN_T b) { LAYER_OWN_T r; r.m_sizes = c; r.m_storage = b; return r; }
#define CONF_BYTES (8 * DIMS_IN)

/* read_binary<nd_size<N>> instance of the template in binary_io.hpp */
#define NDSIZE_EQ_K(k, v, fs, off) ((v).m_data[k] == LE64_AT((fs)->buf, (off) + 8 * (k)))
#define CONTRACT_read_binary_ndsize(fs) RB_COMMON(fs, CONF_BYTES) \
  __CPROVER_ensures(verif_thrown == 0 ==> VERIF_ALL(DIMS_IN, NDSIZE_EQ_K, __CPROVER_return_value, fs, (fs)->pos - CONF_BYTES))

#define LAYER_IMAGE_OK(fs, p0) \
  ((fs)->len - (p0) >= 8 + CONF_BYTES && LE32_AT((fs)->buf, (p0)) == GOLDEN_MAGIC_HEADER && LE32_AT((fs)->buf, (p0) + 4) == GOLDEN_TAG && \
   verif_b_image_ok && (fs)->len - (p0) - 8 - CONF_BYTES >= verif_b_image_len && \
   (fs)->len - (p0) - 8 - CONF_BYTES - verif_b_image_len >= 8 && \
   LE32_AT((fs)->buf, (p0) + 8 + CONF_BYTES + verif_b_image_len) == GOLDEN_MAGIC_FOOTER && \
   LE32_AT((fs)->buf, (p0) + 12 + CONF_BYTES + verif_b_image_len) == (uint32_t)(GOLDEN_TAG + GOLDEN_FOOTER_OFFSET))

#define CONTRACT_layer_read_binary(fs) \
  RB_PRE(fs) \
  __CPROVER_requires(verif_b_image_len <= VERIF_STREAM_MAX && verif_b_read_calls == 0) \
  __CPROVER_ensures(LAYER_IMAGE_OK(fs, __CPROVER_old((fs)->pos)) ==> verif_thrown == 0) \
  __CPROVER_ensures(verif_thrown == 0 ==> LAYER_IMAGE_OK(fs, __CPROVER_old((fs)->pos))) \
  __CPROVER_ensures(verif_thrown == 0 ==> (fs)->pos == __CPROVER_old((fs)->pos) + 16 + CONF_BYTES + verif_b_image_len) \
  __CPROVER_ensures(verif_thrown == 0 ==> VERIF_ALL(DIMS_IN, NDSIZE_EQ_K, __CPROVER_return_value.m_sizes, fs, __CPROVER_old((fs)->pos) + 8)) \
  __CPROVER_ensures(verif_thrown == 0 ==> (__CPROVER_return_value.m_storage.token == verif_b_loaded.token && verif_b_read_calls == 1 && \
                                           verif_b_read_pos == __CPROVER_old((fs)->pos) + 8 + CONF_BYTES)) \
  __CPROVER_ensures((fs)->pos <= (fs)->len) \
  __CPROVER_assigns((fs)->pos, (fs)->failbit, (fs)->eofbit, verif_thrown, VERIF_B_IO_GHOSTS)

size_t verif_l0;   /* ghost: output length at entry */
#define CONTRACT_layer_write_binary(fs, o) \
  __CPROVER_requires(OSTREAM_VALID(fs) && verif_b_image_len <= VERIF_STREAM_MAX && (fs)->cap - (fs)->len >= 16 + CONF_BYTES + verif_b_image_len) \
  __CPROVER_requires(__CPROVER_is_fresh((fs)->buf, (fs)->cap)) \
  __CPROVER_requires(verif_l0 == (fs)->len && verif_b_write_calls == 0) \
  __CPROVER_ensures((fs)->len == verif_l0 + 16 + CONF_BYTES + verif_b_image_len) \
  __CPROVER_ensures(LE32_AT((fs)->buf, verif_l0) == GOLDEN_MAGIC_HEADER && LE32_AT((fs)->buf, verif_l0 + 4) == GOLDEN_TAG) \
  __CPROVER_ensures(VERIF_ALL(DIMS_IN, NDSIZE_EQ_K, (o)->m_sizes, fs, verif_l0 + 8)) \
  __CPROVER_ensures(verif_b_write_calls == 1 && verif_b_write_pos == verif_l0 + 8 + CONF_BYTES && verif_b_written_token == (o)->m_storage.token) \
  __CPROVER_ensures(LE32_AT((fs)->buf, (fs)->len - 8) == GOLDEN_MAGIC_FOOTER && LE32_AT((fs)->buf, (fs)->len - 4) == (uint32_t)(GOLDEN_TAG + GOLDEN_FOOTER_OFFSET)) \
  __CPROVER_assigns((fs)->len, __CPROVER_object_from((fs)->buf + (fs)->len), VERIF_B_IO_GHOSTS)
