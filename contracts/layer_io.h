/* Contracts for the per-layer serialisers with an nd_size configuration: strided, morton, hilbert
 * (read_binary / write_binary of their owning_data_t).  Golden grammar of the pinned revision:
 *   LE32(C04F1EAB) LE32(tag)  N x LE64(extent)  <image of the inner backend>  LE32(C04F1E70) LE32(tag + 20000000)
 * with tag = AB020010 (strided), AB020006 (morton), AB020004 (hilbert).  Cell binds DIMS_IN and LAYER (1,2,3). */
#include "../stubs/types.h"
#include "binary_io.h"
#include "../stubs/backend_io.h"
/* LAYER 4 = clamp (configuration: min, max coordinate vectors, tag AB020002),
 * LAYER 5 = backup (min, max, default value, tag AB020001): same framing, raw configuration bytes in member order */
#if LAYER == 4
#define GOLDEN_TAG 0xAB020002u
#define CODE_TAG VERIF_TAG_CLAMP
#elif LAYER == 5
#define GOLDEN_TAG 0xAB020001u
#define CODE_TAG VERIF_TAG_BACKUP
#elif LAYER == 1
#define GOLDEN_TAG 0xAB020010u
#define CODE_TAG VERIF_TAG_STRIDED
#elif LAYER == 2
#define GOLDEN_TAG 0xAB020006u
#define CODE_TAG VERIF_TAG_MORTON
#elif LAYER == 3
#define GOLDEN_TAG 0xAB020004u
#define CODE_TAG VERIF_TAG_HILBERT
#endif
static const uint32_t verif_layer_tag_obj = CODE_TAG;   /* the layer's static constexpr IO_MAGIC_HEADER as g++ evaluates it */
#define NDSIZE_EQ_K(k, v, fs, off) ((v).m_data[k] == LE64_AT((fs)->buf, (off) + 8 * (k)))
#if LAYER <= 3
typedef struct { ND_SIZE_T m_sizes; B_OWN_T m_storage; } LAYER_OWN_T;
/* owning_data_t(const configuration_t & c, backend_t::owning_data_t && b): m_sizes(c), m_storage(move(b))  (constructor, not extracted) */
static LAYER_OWN_T verif_layer_own_ctor(ND_SIZE_T c, B_OWN_T b) { LAYER_OWN_T r; r.m_sizes = c; r.m_storage = b; return r; }
#define CONF_BYTES (8 * DIMS_IN)
#define CONF_EQ(obj, fs, off) VERIF_ALL(DIMS_IN, NDSIZE_EQ_K, (obj).m_sizes, fs, off)
#define B_MEMBER m_storage
#else
#define SB sizeof(IN_SCALAR_T)
#define SO sizeof(OUT_SCALAR_T)
#define INVEC_EQ_K(k, v, fs, off) __CPROVER_equal((v).m_data[k], *(const IN_SCALAR_T *)((fs)->buf + (off) + (k) * SB))
#define OUTVEC_EQ_K(k, v, fs, off) __CPROVER_equal((v).m_data[k], *(const OUT_SCALAR_T *)((fs)->buf + (off) + (k) * SO))
#define B_MEMBER m_backend
#if LAYER == 4
typedef struct { IN_VEC_T m_min, m_max; B_OWN_T m_backend; } LAYER_OWN_T;
static LAYER_OWN_T verif_clamp_own_ctor(IN_VEC_T mn, IN_VEC_T mx, B_OWN_T b) { LAYER_OWN_T r; r.m_min = mn; r.m_max = mx; r.m_backend = b; return r; }
#define CONF_BYTES (2 * DIMS_IN * SB)
#define CONF_EQ(obj, fs, off) (VERIF_ALL(DIMS_IN, INVEC_EQ_K, (obj).m_min, fs, off) && VERIF_ALL(DIMS_IN, INVEC_EQ_K, (obj).m_max, fs, (off) + DIMS_IN * SB))
#else
typedef struct { IN_VEC_T m_min, m_max; OUT_VEC_T m_default; B_OWN_T m_backend; } LAYER_OWN_T;
static LAYER_OWN_T verif_backup_own_ctor(IN_VEC_T mn, IN_VEC_T mx, OUT_VEC_T df, B_OWN_T b) { LAYER_OWN_T r; r.m_min = mn; r.m_max = mx; r.m_default = df; r.m_backend = b; return r; }
#define CONF_BYTES (2 * DIMS_IN * SB + DIMS_OUT * SO)
#define CONF_EQ(obj, fs, off) (VERIF_ALL(DIMS_IN, INVEC_EQ_K, (obj).m_min, fs, off) && VERIF_ALL(DIMS_IN, INVEC_EQ_K, (obj).m_max, fs, (off) + DIMS_IN * SB) && \
                               VERIF_ALL(DIMS_OUT, OUTVEC_EQ_K, (obj).m_default, fs, (off) + 2 * DIMS_IN * SB))
#endif
#define CONTRACT_read_binary_invec(fs) RB_COMMON(fs, DIMS_IN * SB) \
  __CPROVER_ensures(verif_thrown == 0 ==> VERIF_ALL(DIMS_IN, INVEC_EQ_K, __CPROVER_return_value, fs, (fs)->pos - DIMS_IN * SB))
#define CONTRACT_read_binary_outvec(fs) RB_COMMON(fs, DIMS_OUT * SO) \
  __CPROVER_ensures(verif_thrown == 0 ==> VERIF_ALL(DIMS_OUT, OUTVEC_EQ_K, __CPROVER_return_value, fs, (fs)->pos - DIMS_OUT * SO))
#endif

/* read_binary<nd_size<N>> instance of the template in binary_io.hpp */
#define CONTRACT_read_binary_ndsize(fs) RB_COMMON(fs, CONF_BYTES) \
  __CPROVER_ensures(verif_thrown == 0 ==> VERIF_ALL(DIMS_IN, NDSIZE_EQ_K, __CPROVER_return_value, fs, (fs)->pos - CONF_BYTES))

#define LAYER_IMAGE_OK(fs, p0) \
  ((fs)->len - (p0) >= 8 + CONF_BYTES && LE32_AT((fs)->buf, (p0)) == GOLDEN_MAGIC_HEADER && LE32_AT((fs)->buf, (p0) + 4) == GOLDEN_TAG && \
   verif_b_image_ok && (fs)->len - (p0) - 8 - CONF_BYTES >= verif_b_image_len && \
   (fs)->len - (p0) - 8 - CONF_BYTES - verif_b_image_len >= 8 && \
   LE32_AT((fs)->buf, (p0) + 8 + CONF_BYTES + verif_b_image_len) == GOLDEN_MAGIC_FOOTER && \
   LE32_AT((fs)->buf, (p0) + 12 + CONF_BYTES + verif_b_image_len) == (uint32_t)(GOLDEN_TAG + GOLDEN_FOOTER_OFFSET))

#define CONTRACT_layer_read_binary(fs) \
  RB_PRE(fs) \
  __CPROVER_requires(verif_b_image_len <= VERIF_STREAM_MAX && verif_b_read_calls == 0) \
  __CPROVER_ensures(LAYER_IMAGE_OK(fs, __CPROVER_old((fs)->pos)) ==> verif_thrown == 0) \
  __CPROVER_ensures(verif_thrown == 0 ==> LAYER_IMAGE_OK(fs, __CPROVER_old((fs)->pos))) \
  __CPROVER_ensures(verif_thrown == 0 ==> (fs)->pos == __CPROVER_old((fs)->pos) + 16 + CONF_BYTES + verif_b_image_len) \
  __CPROVER_ensures(verif_thrown == 0 ==> CONF_EQ(__CPROVER_return_value, fs, __CPROVER_old((fs)->pos) + 8)) \
  __CPROVER_ensures(verif_thrown == 0 ==> (__CPROVER_return_value.B_MEMBER.token == verif_b_loaded.token && verif_b_read_calls == 1 && \
                                           verif_b_read_pos == __CPROVER_old((fs)->pos) + 8 + CONF_BYTES)) \
  __CPROVER_ensures((fs)->pos <= (fs)->len) \
  __CPROVER_assigns((fs)->pos, (fs)->failbit, (fs)->eofbit, verif_thrown, VERIF_B_IO_GHOSTS)

size_t verif_l0;   /* ghost: output length at entry */
#define CONTRACT_layer_write_binary(fs, o) \
  __CPROVER_requires(OSTREAM_VALID(fs) && verif_b_image_len <= VERIF_STREAM_MAX && (fs)->cap - (fs)->len >= 16 + CONF_BYTES + verif_b_image_len) \
  __CPROVER_requires(__CPROVER_is_fresh((fs)->buf, (fs)->cap)) \
  __CPROVER_requires(verif_l0 == (fs)->len && verif_b_write_calls == 0) \
  __CPROVER_ensures((fs)->len == verif_l0 + 16 + CONF_BYTES + verif_b_image_len) \
  __CPROVER_ensures(LE32_AT((fs)->buf, verif_l0) == GOLDEN_MAGIC_HEADER && LE32_AT((fs)->buf, verif_l0 + 4) == GOLDEN_TAG) \
  __CPROVER_ensures(CONF_EQ(*(o), fs, verif_l0 + 8)) \
  __CPROVER_ensures(verif_b_write_calls == 1 && verif_b_write_pos == verif_l0 + 8 + CONF_BYTES && verif_b_written_token == (o)->B_MEMBER.token) \
  __CPROVER_ensures(LE32_AT((fs)->buf, (fs)->len - 8) == GOLDEN_MAGIC_FOOTER && LE32_AT((fs)->buf, (fs)->len - 4) == (uint32_t)(GOLDEN_TAG + GOLDEN_FOOTER_OFFSET)) \
  __CPROVER_assigns((fs)->len, __CPROVER_object_from((fs)->buf + (fs)->len), VERIF_B_IO_GHOSTS)
