/* Contract for covfie::backend::array<...>::non_owning_data_t::at
 * (lib/core/covfie/core/backend/primitive/array.hpp): returns a reference to element i of the view's own
 * buffer; needs i < m_size (the library's debug assert is an obligation in the debug flavour). */
#ifndef DIMS_OUT
#define DIMS_OUT 3
#endif
#include "../stubs/types.h"
typedef struct { uint64_t m_size; OUT_VEC_T *m_ptr; } ARRAY_NO_T;   /* non_owning_data_t */
#define ARRAY_MAX_ELEMS ((uint64_t)1 << 40)
#ifndef ARRAY_RW_MAX_ELEMS
#define ARRAY_RW_MAX_ELEMS 8
#endif
#define CONTRACT_array_at(self, i) \
  __CPROVER_requires((self)->m_size <= ARRAY_MAX_ELEMS) \
  __CPROVER_requires(__CPROVER_is_fresh((self)->m_ptr, (self)->m_size * sizeof(OUT_VEC_T))) \
  __CPROVER_requires((i) < (self)->m_size) \
  __CPROVER_ensures(__CPROVER_return_value == (self)->m_ptr + (i)) \
  __CPROVER_assigns()
