/* Contracts for the hand-written ownership operations of covfie::backend::array<...>::owning_data_t
 * (lib/core/covfie/core/backend/primitive/array.hpp).  C12: every operation preserves the representation
 * invariant and the plain-array model, for all arguments and aliasings; nothing is leaked, freed twice or
 * used after being freed.
 *   wf(d)   := (d.m_size == 0 || d.m_ptr != NULL) and d.m_ptr (if non-null) is the start of a live heap
 *              block of exactly d.m_size elements that d owns
 *   view(d) := the element sequence d.m_ptr[0 .. d.m_size)                                            */
#ifndef DIMS_OUT
#define DIMS_OUT 3
#endif
#include "../stubs/types.h"
typedef struct { uint64_t m_size; OUT_VEC_T *m_ptr; } ARRAY_OWN_T;   /* m_ptr models std::unique_ptr<vector_t[]> */
#ifndef ARRAY_OWN_MAX
#define ARRAY_OWN_MAX ((uint64_t)1 << 32)
#endif
/* R12: std::unique_ptr / std::make_unique (ASSUMED contract of libstdc++) */
static OUT_VEC_T *verif_make_unique_array(uint64_t n)
{
  __CPROVER_assume(n <= ARRAY_OWN_MAX);     /* larger requests: std::bad_alloc, not covered */
  return (OUT_VEC_T *)calloc(n, sizeof(OUT_VEC_T));   /* value-initialised elements */
}
static void verif_unique_ptr_move_assign(OUT_VEC_T **p, OUT_VEC_T *q)   /* p = std::move(q): releases the old block */
{
  OUT_VEC_T *old = *p;
  *p = q;
  if (old) free(old);
}
static OUT_VEC_T *verif_unique_ptr_release(OUT_VEC_T **p)   /* p.release(): gives up ownership WITHOUT freeing */
{
  OUT_VEC_T *old = *p;
  *p = 0;
  return old;
}
static OUT_VEC_T *verif_unique_ptr_take(OUT_VEC_T **q)    /* std::move(q) into a new unique_ptr: q is left null */
{
  OUT_VEC_T *p = *q;
  *q = 0;
  return p;
}
unsigned long verif_ghost_K;
unsigned verif_ghost_J;
OUT_SCALAR_T verif_ghost_src;   /* ghost: value of o[K][J] before the call (set by the harness) */

/* (a block LARGER than m_size elements would also be a valid representation; only "at least m_size" is demanded) */
#define WF(d) (((d)->m_size == 0 || (d)->m_ptr != 0) && (d)->m_size <= ARRAY_OWN_MAX && \
               ((d)->m_ptr == 0 || (__CPROVER_POINTER_OFFSET((d)->m_ptr) == 0 && __CPROVER_OBJECT_SIZE((d)->m_ptr) >= (d)->m_size * sizeof(OUT_VEC_T) && __CPROVER_DYNAMIC_OBJECT((d)->m_ptr))))

/* copy assignment; `self` and `o` may be the same object */
#define CONTRACT_array_copy_assign(self, o) \
  __CPROVER_requires(verif_ghost_J < DIMS_OUT) \
  __CPROVER_ensures(__CPROVER_return_value == (self)) \
  __CPROVER_ensures(WF(self)) \
  __CPROVER_ensures((self)->m_size == verif_old_o_size) \
  __CPROVER_ensures(verif_ghost_K < (self)->m_size ==> __CPROVER_equal((self)->m_ptr[verif_ghost_K].m_data[verif_ghost_J], verif_ghost_src)) \
  __CPROVER_ensures((self) != (o) ==> ((o)->m_size == verif_old_o_size && (o)->m_ptr == verif_old_o_ptr)) \
  __CPROVER_ensures(((self) != (o) && verif_ghost_K < (o)->m_size) ==> __CPROVER_equal((o)->m_ptr[verif_ghost_K].m_data[verif_ghost_J], verif_ghost_src)) \
  __CPROVER_ensures(((self) != (o) && (self)->m_ptr != 0) ==> !__CPROVER_same_object((self)->m_ptr, (o)->m_ptr)) \
  __CPROVER_assigns((self)->m_size, (self)->m_ptr) \
  __CPROVER_frees((self)->m_ptr)
uint64_t verif_old_o_size;
OUT_VEC_T *verif_old_o_ptr;

#define CONTRACT_array_copy_ctor(self, o) \
  __CPROVER_requires(verif_ghost_J < DIMS_OUT) \
  __CPROVER_ensures(WF(self)) \
  __CPROVER_ensures((self)->m_size == verif_old_o_size) \
  __CPROVER_ensures(verif_ghost_K < (self)->m_size ==> __CPROVER_equal((self)->m_ptr[verif_ghost_K].m_data[verif_ghost_J], verif_ghost_src)) \
  __CPROVER_ensures((o)->m_size == verif_old_o_size && (o)->m_ptr == verif_old_o_ptr) \
  __CPROVER_ensures(verif_ghost_K < (o)->m_size ==> __CPROVER_equal((o)->m_ptr[verif_ghost_K].m_data[verif_ghost_J], verif_ghost_src)) \
  __CPROVER_ensures((self)->m_ptr != 0 ==> !__CPROVER_same_object((self)->m_ptr, (o)->m_ptr)) \
  __CPROVER_assigns((self)->m_size, (self)->m_ptr)

/* trivial constructors: establish the representation invariant from raw storage */
#define CONTRACT_array_default_ctor(self) \
  __CPROVER_ensures((self)->m_size == 0 && (self)->m_ptr == 0 && WF(self)) \
  __CPROVER_assigns((self)->m_size, (self)->m_ptr)
#define CONTRACT_array_size_ctor(self, n) \
  __CPROVER_requires((n) <= ARRAY_OWN_MAX && verif_ghost_J < DIMS_OUT) \
  __CPROVER_ensures((self)->m_size == (n) && WF(self)) \
  __CPROVER_ensures(verif_ghost_K < (n) ==> (self)->m_ptr[verif_ghost_K].m_data[verif_ghost_J] == (OUT_SCALAR_T)0)   /* value-initialised */ \
  __CPROVER_assigns((self)->m_size, (self)->m_ptr)
/* (size, unique_ptr&&): adopts the block (no copy), the argument is left null */
#define CONTRACT_array_adopt_ctor(self, size, ptr) \
  __CPROVER_ensures((self)->m_size == (size) && (self)->m_ptr == verif_old_o_ptr && *(ptr) == 0) \
  __CPROVER_assigns((self)->m_size, (self)->m_ptr, *(ptr))
