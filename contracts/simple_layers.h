/* Contracts for the one-line layers of C02: shuffle, covariant_cast, dereference (transformers over an abstract
 * backend B) and constant, identity (primitive backends).  Each states the layer's one-line definition for
 * independent input dimensionality N (DIMS_IN) and output dimensionality M (DIMS_OUT). */
#define VERIF_B_MAXCALLS 4
#include "layer_common.h"
typedef struct { char verif_empty; } EMPTY_SELF_T;
#define ARG_IS_C_K(k, a, c) __CPROVER_equal((a).m_data[k], (c).m_data[k])
#define ALL_CALLS_AT_C(c) \
  (verif_b_calls >= 1 && verif_b_calls <= VERIF_B_MAXCALLS && \
   VERIF_ALL(DIMS_IN, ARG_IS_C_K, verif_b_arg[0], c) && \
   (verif_b_calls < 2 || VERIF_ALL(DIMS_IN, ARG_IS_C_K, verif_b_arg[1], c)) && \
   (verif_b_calls < 3 || VERIF_ALL(DIMS_IN, ARG_IS_C_K, verif_b_arg[2], c)) && \
   (verif_b_calls < 4 || VERIF_ALL(DIMS_IN, ARG_IS_C_K, verif_b_arg[3], c)))

/* ---- shuffle: B is queried once at (c[perm[0]], .., c[perm[N-1]]) */
#ifdef VERIF_PERM
static const unsigned verif_perm[DIMS_IN] = VERIF_PERM;
#define SHUF_K(k, a, c) __CPROVER_equal((a).m_data[k], (c).m_data[verif_perm[k]])
#define CONTRACT_shuffle_shuffle(self, c) \
  __CPROVER_ensures(VERIF_ALL(DIMS_IN, SHUF_K, __CPROVER_return_value, c)) \
  __CPROVER_assigns()
#define CONTRACT_shuffle_at(self, c) \
  __CPROVER_requires(verif_b_calls == 0) \
  __CPROVER_ensures(verif_b_calls == 1 && VERIF_ALL(DIMS_IN, SHUF_K, verif_b_arg[0], c)) \
  __CPROVER_ensures(OUT_EQ(__CPROVER_return_value, verif_b_result)) \
  __CPROVER_assigns(VERIF_B_GHOSTS)
#endif

/* ---- covariant_cast: result[k] == (target_type) B(c)[k] for every k < M; B only ever queried at c */
#ifdef CAST_T
typedef struct { CAST_T m_data[DIMS_OUT]; } CAST_VEC_T;
#define CAST_K(k, r) __CPROVER_equal((r).m_data[k], (CAST_T)verif_b_result.m_data[k])
#define CONTRACT_cast_at_helper(self, c) \
  __CPROVER_requires(verif_b_calls == 0) \
  __CPROVER_ensures(ALL_CALLS_AT_C(c)) \
  __CPROVER_ensures(VERIF_ALL(DIMS_OUT, CAST_K, __CPROVER_return_value)) \
  __CPROVER_assigns(VERIF_B_GHOSTS)
#define CONTRACT_cast_at(self, c) \
  __CPROVER_requires(verif_b_calls == 0) \
  __CPROVER_ensures(ALL_CALLS_AT_C(c)) \
  __CPROVER_ensures(VERIF_ALL(DIMS_OUT, CAST_K, __CPROVER_return_value)) \
  __CPROVER_assigns(VERIF_B_GHOSTS)
#endif

/* ---- dereference: B queried once at c, its value returned as an object */
#define CONTRACT_deref_at(self, c) \
  __CPROVER_requires(verif_b_calls == 0) \
  __CPROVER_ensures(verif_b_calls == 1 && VERIF_ALL(DIMS_IN, ARG_IS_C_K, verif_b_arg[0], c)) \
  __CPROVER_ensures(OUT_EQ(__CPROVER_return_value, verif_b_result)) \
  __CPROVER_assigns(VERIF_B_GHOSTS)

/* ---- constant: the configured value, whatever the coordinate */
typedef struct { OUT_VEC_T m_value; } CONSTANT_SELF_T;
#define CONTRACT_constant_at(self, c) \
  __CPROVER_ensures(OUT_EQ(__CPROVER_return_value, (self)->m_value)) \
  __CPROVER_assigns()

/* ---- identity: the coordinate itself (N == M by the layer's static_assert; the cell binds IDENT_OUT_T) */
#ifdef IDENT_OUT_T
typedef struct { IDENT_OUT_T m_data[DIMS_IN]; } IDENT_VEC_T;
#define IDENT_K(k, r, c) __CPROVER_equal((r).m_data[k], (IDENT_OUT_T)(c).m_data[k])
#define CONTRACT_identity_at(self, c) \
  __CPROVER_ensures(VERIF_ALL(DIMS_IN, IDENT_K, __CPROVER_return_value, c)) \
  __CPROVER_assigns()
#endif
