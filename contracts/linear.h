/* Contracts for the linear interpolation layer (lib/core/covfie/core/backend/transformer/linear.hpp).  C03.
 * Cell binds DIMS_IN (N: input dimensions), DIMS_OUT (M: outputs, independent of N), IN_SCALAR_T (coordinate:
 * float/double), OUT_SCALAR_T (stored: float/double), B_IN_SCALAR_T (lattice index type).
 * The backend B is a 2^N-point cell stub: it ASSERTS that every query is one of the 2^N lattice points
 * surrounding the coordinate, counts the queries per neighbour, and returns the neighbour's ghost value. */
#include "../stubs/types.h"
#ifndef B_IN_SCALAR_T
#define B_IN_SCALAR_T size_t
#endif
#define DIMS_B_IN DIMS_IN
typedef struct { B_IN_SCALAR_T m_data[DIMS_IN]; } B_IN_VEC_T;
typedef struct { char verif_empty; } LINEAR_SELF_T;
#define NB_COUNT (1u << DIMS_IN)
B_IN_VEC_T verif_cell_base;          /* ghost: floor of the coordinate (set by the harness) */
OUT_VEC_T verif_b_table[NB_COUNT];   /* ghost: lattice values; neighbour index has bit k set iff +1 on axis k */
unsigned verif_b_hits[NB_COUNT];     /* ghost: queries per neighbour */
unsigned verif_b_calls;              /* ghost */
unsigned verif_ghost_nb;             /* ghost neighbour index */
unsigned verif_ghost_q;              /* ghost output component */

static OUT_VEC_T backend_at(B_IN_VEC_T x)
{
  unsigned bits = 0;
  for (unsigned k = 0; k < DIMS_IN; k++) {
    __CPROVER_assert(x.m_data[k] == verif_cell_base.m_data[k] || x.m_data[k] == (B_IN_SCALAR_T)(verif_cell_base.m_data[k] + 1),
                     "queried lattice point is one of the 2^N points surrounding the coordinate");
    if (x.m_data[k] != verif_cell_base.m_data[k]) bits |= 1u << k;
  }
  verif_b_hits[bits]++;
  verif_b_calls++;
  return verif_b_table[bits];
}
/* C++: braced initialiser list with K != N (and K != 1) initialisers for a covfie::array of N elements is ill-formed */
static B_IN_VEC_T verif_illformed_brace_init(void)
{
  __CPROVER_assert(0, "ill-formed in C++: braced initialiser with the wrong number of elements is reachable in this instantiation");
  B_IN_VEC_T v; return v;
}

#define LIN_MAX ((IN_SCALAR_T)8388607.0)   /* 2^23 - 1: integer part and integer part + 1 exactly representable in float and in every index type */
#define LIN_DOM_K(k, c) ((c).m_data[k] >= (IN_SCALAR_T)0 && (c).m_data[k] <= LIN_MAX)
#define LIN_BASE_K(k, c) (verif_cell_base.m_data[k] == (B_IN_SCALAR_T)(c).m_data[k])
#define LIN_LATTICE_K(k, c) ((c).m_data[k] == (IN_SCALAR_T)(B_IN_SCALAR_T)(c).m_data[k])
/* value the lattice point holds, converted to the coordinate precision */
#define LIN_TAB(nb, q) ((IN_SCALAR_T)verif_b_table[nb].m_data[q])

#ifdef VERIF_LIN_WEIGHTS
/* exact sub-domain: fractional parts in {0, 1/4, 1/2, 3/4}, basis data (ghost neighbour holds 1, all others 0):
 * result == prod_k (bit_k(nb) ? f_k : 1 - f_k), exactly */
#define LIN_FRAC_K(k, c) ((c).m_data[k] - (IN_SCALAR_T)(B_IN_SCALAR_T)(c).m_data[k])
#define LIN_W_K(k, c) (((verif_ghost_nb >> (k)) & 1u) ? LIN_FRAC_K(k, c) : ((IN_SCALAR_T)1 - LIN_FRAC_K(k, c)))
#if DIMS_IN == 1
#define LIN_WEIGHT(c) (LIN_W_K(0, c))
#elif DIMS_IN == 2
#define LIN_WEIGHT(c) (LIN_W_K(0, c) * LIN_W_K(1, c))
#elif DIMS_IN == 3
#define LIN_WEIGHT(c) (LIN_W_K(0, c) * LIN_W_K(1, c) * LIN_W_K(2, c))
#elif DIMS_IN == 4
#define LIN_WEIGHT(c) (LIN_W_K(0, c) * LIN_W_K(1, c) * LIN_W_K(2, c) * LIN_W_K(3, c))
#elif DIMS_IN == 5
#define LIN_WEIGHT(c) (LIN_W_K(0, c) * LIN_W_K(1, c) * LIN_W_K(2, c) * LIN_W_K(3, c) * LIN_W_K(4, c))
#endif
#define LIN_EXTRA_ENSURES(c) \
  __CPROVER_ensures(__CPROVER_return_value.m_data[verif_ghost_q] == (OUT_SCALAR_T)LIN_WEIGHT(c))
#else
#define LIN_EXTRA_ENSURES(c)
#endif

#define CONTRACT_linear_at(self, coord) \
  __CPROVER_requires(VERIF_ALL(DIMS_IN, LIN_DOM_K, coord) && VERIF_ALL(DIMS_IN, LIN_BASE_K, coord)) \
  __CPROVER_requires(verif_b_calls == 0 && verif_ghost_nb < NB_COUNT && verif_ghost_q < DIMS_OUT) \
  /* 1. neighbour set: only the 2^N surrounding lattice points are queried (membership asserted by the stub) and every \
   *    one of them is (how often is not part of the property: a re-query of the same lattice point is harmless) */ \
  __CPROVER_ensures(verif_b_calls >= NB_COUNT && verif_b_hits[verif_ghost_nb] >= 1) \
  /* 2. at lattice points the stored value is returned exactly (after conversion to the coordinate precision) */ \
  __CPROVER_ensures(VERIF_ALL(DIMS_IN, LIN_LATTICE_K, coord) ==> __CPROVER_return_value.m_data[verif_ghost_q] == (OUT_SCALAR_T)LIN_TAB(0, verif_ghost_q)) \
  LIN_EXTRA_ENSURES(coord) \
  __CPROVER_assigns(verif_b_calls, __CPROVER_object_whole(verif_b_hits))

#define CONTRACT_linear_index_helper(self, coord, n) \
  __CPROVER_requires((n) < NB_COUNT) \
  __CPROVER_ensures(VERIF_ALL(DIMS_IN, LIN_HELPER_K, __CPROVER_return_value, coord, n)) \
  __CPROVER_assigns()
#define LIN_HELPER_K(k, r, coord, n) ((r).m_data[k] == (B_IN_SCALAR_T)((coord).m_data[k] + ((((n) >> (k)) & 1) ? 1 : 0)))
