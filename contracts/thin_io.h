/* Contracts for serialisers without a configuration of their own:
 *   THIN == 1,2,3 : pass-through layers linear / nearest_neighbour / shuffle -- their bytes ARE the inner backend's
 *                   bytes (no tag, no header, no footer): this is what makes files portable across the
 *                   interpolation method (C07);
 *   THIN == 4     : identity backend: LE32(C04F1EAB) LE32(AB010002) LE32(C04F1E70) LE32(CB010002);
 *   THIN == 5     : field: LE32(C04F1EAB) LE32(AB000000) <backend image> LE32(C04F1E70) LE32(CB000000). */
#include "../stubs/types.h"
#include "binary_io.h"
#include "../stubs/backend_io.h"
typedef struct { B_OWN_T m_backend; } THIN_OWN_T;
static THIN_OWN_T verif_thin_own_ctor(B_OWN_T b) { THIN_OWN_T r; r.m_backend = b; return r; }
typedef struct { char verif_empty; } IDENT_OWN_T;
static IDENT_OWN_T verif_ident_own_ctor(void) { IDENT_OWN_T r; r.verif_empty = 0; return r; }
size_t verif_l0;
#if THIN == 4
#define GOLDEN_TAG 0xAB010002u
static const uint32_t verif_layer_tag_obj = VERIF_TAG_IDENTITY;
#elif THIN == 5
#define GOLDEN_TAG 0xAB000000u
static const uint32_t verif_layer_tag_obj = VERIF_TAG_FIELD;
#endif

#if THIN == 8
/* ---- constant backend: LE32(C04F1EAB) LE32(AB010001) M scalars (the value) LE32(C04F1E70) LE32(CB010001) */
#define GOLDEN_TAG 0xAB010001u
static const uint32_t verif_layer_tag_obj = VERIF_TAG_CONSTANT;
typedef struct { OUT_VEC_T m_value; } CONST_OWN_T;
static CONST_OWN_T verif_const_own_ctor(OUT_VEC_T v) { CONST_OWN_T r; r.m_value = v; return r; }
#define VAL_BYTES (DIMS_OUT * sizeof(OUT_SCALAR_T))
#define OUTVEC_EQ_K(k, v, fs, off) __CPROVER_equal((v).m_data[k], *(const OUT_SCALAR_T *)((fs)->buf + (off) + (k) * sizeof(OUT_SCALAR_T)))
#define CONTRACT_read_binary_outvec(fs) RB_COMMON(fs, VAL_BYTES) \
  __CPROVER_ensures(verif_thrown == 0 ==> VERIF_ALL(DIMS_OUT, OUTVEC_EQ_K, __CPROVER_return_value, fs, (fs)->pos - VAL_BYTES))
#define CONST_IMAGE_OK(fs, p0) \
  ((fs)->len - (p0) >= 16 + VAL_BYTES && LE32_AT((fs)->buf, (p0)) == GOLDEN_MAGIC_HEADER && LE32_AT((fs)->buf, (p0) + 4) == GOLDEN_TAG && \
   LE32_AT((fs)->buf, (p0) + 8 + VAL_BYTES) == GOLDEN_MAGIC_FOOTER && LE32_AT((fs)->buf, (p0) + 12 + VAL_BYTES) == (uint32_t)(GOLDEN_TAG + GOLDEN_FOOTER_OFFSET))
#define CONTRACT_const_read_binary(fs) \
  RB_PRE(fs) \
  __CPROVER_ensures((verif_thrown == 0) == CONST_IMAGE_OK(fs, __CPROVER_old((fs)->pos))) \
  __CPROVER_ensures(verif_thrown == 0 ==> ((fs)->pos == __CPROVER_old((fs)->pos) + 16 + VAL_BYTES && \
                                           VERIF_ALL(DIMS_OUT, OUTVEC_EQ_K, __CPROVER_return_value.m_value, fs, __CPROVER_old((fs)->pos) + 8))) \
  RB_FRAME(fs)
#define CONTRACT_const_write_binary(fs, o) \
  WB_PRE(fs, 16 + VAL_BYTES) \
  __CPROVER_requires(verif_l0 == (fs)->len) \
  __CPROVER_ensures((fs)->len == verif_l0 + 16 + VAL_BYTES) \
  __CPROVER_ensures(LE32_AT((fs)->buf, verif_l0) == GOLDEN_MAGIC_HEADER && LE32_AT((fs)->buf, verif_l0 + 4) == GOLDEN_TAG) \
  __CPROVER_ensures(VERIF_ALL(DIMS_OUT, OUTVEC_EQ_K, (o)->m_value, fs, verif_l0 + 8)) \
  __CPROVER_ensures(LE32_AT((fs)->buf, (fs)->len - 8) == GOLDEN_MAGIC_FOOTER && LE32_AT((fs)->buf, (fs)->len - 4) == (uint32_t)(GOLDEN_TAG + GOLDEN_FOOTER_OFFSET)) \
  __CPROVER_assigns((fs)->len, __CPROVER_object_from((fs)->buf + (fs)->len))
#endif

/* ---- pass-through */
#define B_IMAGE_PRESENT(fs, p0) (verif_b_image_ok && (fs)->len - (p0) >= verif_b_image_len)
#define CONTRACT_thin_read_binary(fs) \
  RB_PRE(fs) \
  __CPROVER_requires(verif_b_image_len <= VERIF_STREAM_MAX && verif_b_read_calls == 0) \
  __CPROVER_ensures((verif_thrown == 0) == B_IMAGE_PRESENT(fs, __CPROVER_old((fs)->pos))) \
  __CPROVER_ensures(verif_thrown == 0 ==> ((fs)->pos == __CPROVER_old((fs)->pos) + verif_b_image_len && __CPROVER_return_value.m_backend.token == verif_b_loaded.token)) \
  __CPROVER_ensures(verif_b_read_calls == 1 && verif_b_read_pos == __CPROVER_old((fs)->pos)) \
  __CPROVER_assigns((fs)->pos, (fs)->failbit, (fs)->eofbit, verif_thrown, VERIF_B_IO_GHOSTS)
#define CONTRACT_thin_write_binary(fs, o) \
  __CPROVER_requires(OSTREAM_VALID(fs) && verif_b_image_len <= VERIF_STREAM_MAX && (fs)->cap - (fs)->len >= verif_b_image_len) \
  __CPROVER_requires(__CPROVER_is_fresh((fs)->buf, (fs)->cap)) \
  __CPROVER_requires(verif_l0 == (fs)->len && verif_b_write_calls == 0) \
  __CPROVER_ensures((fs)->len == verif_l0 + verif_b_image_len) \
  __CPROVER_ensures(verif_b_write_calls == 1 && verif_b_write_pos == verif_l0 && verif_b_written_token == (o)->m_backend.token) \
  __CPROVER_assigns((fs)->len, __CPROVER_object_from((fs)->buf + (fs)->len), VERIF_B_IO_GHOSTS)

/* ---- identity */
#define IDENT_IMAGE_OK(fs, p0) \
  ((fs)->len - (p0) >= 16 && LE32_AT((fs)->buf, (p0)) == GOLDEN_MAGIC_HEADER && LE32_AT((fs)->buf, (p0) + 4) == GOLDEN_TAG && \
   LE32_AT((fs)->buf, (p0) + 8) == GOLDEN_MAGIC_FOOTER && LE32_AT((fs)->buf, (p0) + 12) == (uint32_t)(GOLDEN_TAG + GOLDEN_FOOTER_OFFSET))
#define CONTRACT_ident_read_binary(fs) \
  RB_PRE(fs) \
  __CPROVER_ensures((verif_thrown == 0) == IDENT_IMAGE_OK(fs, __CPROVER_old((fs)->pos))) \
  __CPROVER_ensures(verif_thrown == 0 ==> (fs)->pos == __CPROVER_old((fs)->pos) + 16) \
  RB_FRAME(fs)
#define CONTRACT_ident_write_binary(fs, o) \
  WB_PRE(fs, 16) \
  __CPROVER_requires(verif_l0 == (fs)->len) \
  __CPROVER_ensures((fs)->len == verif_l0 + 16) \
  __CPROVER_ensures(LE32_AT((fs)->buf, verif_l0) == GOLDEN_MAGIC_HEADER && LE32_AT((fs)->buf, verif_l0 + 4) == GOLDEN_TAG && \
                    LE32_AT((fs)->buf, verif_l0 + 8) == GOLDEN_MAGIC_FOOTER && LE32_AT((fs)->buf, verif_l0 + 12) == (uint32_t)(GOLDEN_TAG + GOLDEN_FOOTER_OFFSET)) \
  __CPROVER_assigns((fs)->len, __CPROVER_object_from((fs)->buf + (fs)->len))

/* ---- field: header, backend image, footer */
#define FIELD_IMAGE_OK(fs, p0) \
  ((fs)->len - (p0) >= 8 && LE32_AT((fs)->buf, (p0)) == GOLDEN_MAGIC_HEADER && LE32_AT((fs)->buf, (p0) + 4) == GOLDEN_TAG && \
   verif_b_image_ok && (fs)->len - (p0) - 8 >= verif_b_image_len && (fs)->len - (p0) - 8 - verif_b_image_len >= 8 && \
   LE32_AT((fs)->buf, (p0) + 8 + verif_b_image_len) == GOLDEN_MAGIC_FOOTER && \
   LE32_AT((fs)->buf, (p0) + 12 + verif_b_image_len) == (uint32_t)(GOLDEN_TAG + GOLDEN_FOOTER_OFFSET))
#define CONTRACT_field_load(self, fs) \
  RB_PRE(fs) \
  __CPROVER_requires(verif_b_image_len <= VERIF_STREAM_MAX && verif_b_read_calls == 0) \
  __CPROVER_ensures(FIELD_IMAGE_OK(fs, __CPROVER_old((fs)->pos)) ==> verif_thrown == 0) \
  __CPROVER_ensures(verif_thrown == 0 ==> FIELD_IMAGE_OK(fs, __CPROVER_old((fs)->pos))) \
  __CPROVER_ensures(verif_thrown == 0 ==> ((fs)->pos == __CPROVER_old((fs)->pos) + 16 + verif_b_image_len && (self)->m_backend.token == verif_b_loaded.token)) \
  __CPROVER_assigns((fs)->pos, (fs)->failbit, (fs)->eofbit, verif_thrown, (self)->m_backend, VERIF_B_IO_GHOSTS)
#define CONTRACT_field_dump(self, fs) \
  __CPROVER_requires(OSTREAM_VALID(fs) && verif_b_image_len <= VERIF_STREAM_MAX && (fs)->cap - (fs)->len >= 16 + verif_b_image_len) \
  __CPROVER_requires(__CPROVER_is_fresh((fs)->buf, (fs)->cap)) \
  __CPROVER_requires(verif_l0 == (fs)->len && verif_b_write_calls == 0) \
  __CPROVER_ensures((fs)->len == verif_l0 + 16 + verif_b_image_len) \
  __CPROVER_ensures(LE32_AT((fs)->buf, verif_l0) == GOLDEN_MAGIC_HEADER && LE32_AT((fs)->buf, verif_l0 + 4) == GOLDEN_TAG) \
  __CPROVER_ensures(verif_b_write_calls == 1 && verif_b_write_pos == verif_l0 + 8 && verif_b_written_token == (self)->m_backend.token) \
  __CPROVER_ensures(LE32_AT((fs)->buf, (fs)->len - 8) == GOLDEN_MAGIC_FOOTER && LE32_AT((fs)->buf, (fs)->len - 4) == (uint32_t)(GOLDEN_TAG + GOLDEN_FOOTER_OFFSET)) \
  __CPROVER_assigns((fs)->len, __CPROVER_object_from((fs)->buf + (fs)->len), VERIF_B_IO_GHOSTS)
