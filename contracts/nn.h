/* Contracts for the nearest-neighbour layer (lib/core/covfie/core/backend/transformer/nearest_neighbour.hpp).
 * C04: the backend is queried exactly once at a lattice point every component of which lies within one half
 * of the corresponding coordinate component, for float and double coordinates alike.
 * Domain: NN_LO <= c[k] <= NN_HI where the cell chooses the largest range on which every lattice point is
 * representable both in the coordinate type and in the backend's index type (default rounding mode). */
#include "layer_common.h"
typedef struct { char verif_empty; } NN_SELF_T;
#define NN_DOM_K(k, c) ((c).m_data[k] >= (IN_SCALAR_T)(NN_LO) && (c).m_data[k] <= (IN_SCALAR_T)(NN_HI))
#define NN_NEAR_K(k, a, c) \
  ((double)(a).m_data[k] - (double)(c).m_data[k] <= 0.5 && (double)(a).m_data[k] - (double)(c).m_data[k] >= -0.5)
#define CONTRACT_nn_at(self, c) \
  __CPROVER_requires(VERIF_ALL(DIMS_IN, NN_DOM_K, c)) \
  __CPROVER_requires(verif_b_calls == 0) \
  __CPROVER_ensures(verif_b_calls == 1) \
  __CPROVER_ensures(VERIF_ALL(DIMS_IN, NN_NEAR_K, verif_b_arg[0], c)) \
  __CPROVER_ensures(OUT_EQ(__CPROVER_return_value, verif_b_result)) \
  __CPROVER_assigns(VERIF_B_GHOSTS)
