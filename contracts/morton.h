/* Contracts for the Morton layer (lib/core/covfie/core/backend/transformer/morton.hpp).
 * Cell binds DIMS_IN (N), IN_SCALAR_T, VERIF_USE_BMI2, optionally HAVE_BMI2.
 * Postcondition = C14: "bit-interleave of its coordinates with the first coordinate in the
 * least-significant position", on the domain where the storage length is representable
 * (every coordinate < 2^floor(64/N)). */
#include "array_at.h"   /* the array backend's lookup contract, for the composed lemma h_morton_array_compose (defines DIMS_OUT if the cell does not) */
#include "../stubs/types.h"
#define B_IN_SCALAR_T size_t   /* contravariant_output_t::scalar_t: flat index type of the array-like storage */
#define MORTON_BITS (64 / DIMS_IN)
#define MORTON_COORD_OK(v) ((v) >= 0 && (MORTON_BITS >= 64 || (uint64_t)(v) < ((uint64_t)1 << (MORTON_BITS % 64))))
#define MORTON_COORD_OK_K(k, c) MORTON_COORD_OK((c).m_data[k])
#define MORTON_DOMAIN(c) VERIF_ALL(DIMS_IN, MORTON_COORD_OK_K, c)
#define MORTON_BIT(c, q) ((q) < DIMS_IN * MORTON_BITS ? (((uint64_t)(c).m_data[(q) % DIMS_IN] >> ((q) / DIMS_IN)) & 1) : (uint64_t)0)
#define MORTON_INTERLEAVED_V(r, c, vq) __CPROVER_forall { unsigned vq; (vq < 64) ==> ((((uint64_t)(r)) >> vq) & 1) == MORTON_BIT(c, vq) }
#define MORTON_INTERLEAVED(r, c) MORTON_INTERLEAVED_V(r, c, vq)

#define CONTRACT_morton_calculate_index(c) \
  __CPROVER_requires(MORTON_DOMAIN(c)) \
  __CPROVER_ensures(MORTON_INTERLEAVED(__CPROVER_return_value, c)) \
  __CPROVER_assigns()

#define CONTRACT_morton_pdep_compute(c) \
  __CPROVER_requires(MORTON_DOMAIN(c)) \
  __CPROVER_ensures(MORTON_INTERLEAVED(__CPROVER_return_value, c)) \
  __CPROVER_assigns()

/* the layer's lookup: B (an array-like backend addressed by a flat size_t index) is queried exactly
 * once at the Morton position of c and its result is returned unchanged; nothing else is written */
typedef struct { ND_SIZE_T m_sizes; } MORTON_SELF_T;
#define B_IN_T size_t
#define B_RET_T OUT_VEC_PTR_T
typedef struct verif_elem *OUT_VEC_PTR_T;
OUT_VEC_PTR_T verif_b_result;        /* ghost: what B returns */
size_t verif_b_size;                 /* ghost: B's domain is [0, verif_b_size) */
#define VERIF_B_DOMAIN(x) ((x) < verif_b_size)
#define VERIF_B_VALUE(x) verif_b_result

/* Representation invariant of a Morton view over array-like storage, stated as the property states it (C18):
 * "the storage has more cells than the largest curve position of any in-range coordinate".  Interleaving is
 * monotone in every coordinate (lemma h_morton_monotone), so the largest position is that of the far corner
 * (sizes - 1); the ghost verif_ghost_m is that position.  Every extent is in [1, 2^floor(64/N)]. */
size_t verif_ghost_m;             /* ghost: Morton position of the far corner */
#define MORTON_EXT_DOM_K(k, sizes) ((sizes).m_data[k] >= 1 && (MORTON_BITS >= 64 || (sizes).m_data[k] <= ((uint64_t)1 << (MORTON_BITS % 64))))
#define MORTON_FAR_BIT(sizes, q) ((q) < DIMS_IN * MORTON_BITS ? ((((uint64_t)(sizes).m_data[(q) % DIMS_IN] - 1) >> ((q) / DIMS_IN)) & 1) : (uint64_t)0)
#define MORTON_FAR_IS(m, sizes, vq) __CPROVER_forall { unsigned vq; (vq < 64) ==> ((((uint64_t)(m)) >> vq) & 1) == MORTON_FAR_BIT(sizes, vq) }
#define MORTON_EXTENT_OK_K(k, sizes) ((sizes).m_data[k] >= 1 && (sizes).m_data[k] <= ((size_t)1 << verif_ghost_k))
#define MORTON_EXTENT_BIG_K(k, sizes) ((sizes).m_data[k] > ((size_t)1 << (verif_ghost_k - 1)))
#define MORTON_C_IN_RANGE_K(k, self, c) ((c).m_data[k] >= 0 && (uint64_t)(c).m_data[k] < (self)->m_sizes.m_data[k])
#define MORTON_INV(sizes) \
  (VERIF_ALL(DIMS_IN, MORTON_EXT_DOM_K, sizes) && MORTON_FAR_IS(verif_ghost_m, sizes, vqf) && verif_b_size > verif_ghost_m)

#define CONTRACT_morton_at(self, c) \
  __CPROVER_requires(MORTON_INV((self)->m_sizes)) \
  __CPROVER_requires(VERIF_ALL(DIMS_IN, MORTON_C_IN_RANGE_K, self, c)) \
  __CPROVER_requires(verif_b_calls == 0) \
  __CPROVER_ensures(verif_b_calls == 1) \
  __CPROVER_ensures(MORTON_INTERLEAVED(verif_b_arg[0], c)) \
  __CPROVER_ensures(__CPROVER_return_value == verif_b_result) \
  __CPROVER_assigns(VERIF_B_GHOSTS)

/* allocation-size expressions: on the domain where the cell count is representable (ghost k = ceil(log2(max extent)),
 * k N <= 63) the result exceeds the position of the far corner -- NOT "equals 2^(k N)": a tighter correct allocation
 * must not raise an alarm */
#define MORTON_SIZES_OK(sizes) \
  (verif_ghost_k <= 63 / DIMS_IN && \
   VERIF_ALL(DIMS_IN, MORTON_EXTENT_OK_K, sizes) && \
   (verif_ghost_k == 0 || VERIF_ANY(DIMS_IN, MORTON_EXTENT_BIG_K, sizes)))
#define CONTRACT_morton_alloc_size_copy(sizes) \
  __CPROVER_requires(MORTON_SIZES_OK(sizes) && MORTON_FAR_IS(verif_ghost_m, sizes, vqa)) \
  __CPROVER_ensures(__CPROVER_return_value > verif_ghost_m)   /* C18: more cells than the largest curve position */ \
  __CPROVER_assigns()
#define CONTRACT_morton_alloc_size_ctor(m_sizes) \
  __CPROVER_requires(MORTON_SIZES_OK(m_sizes) && MORTON_FAR_IS(verif_ghost_m, m_sizes, vqb)) \
  __CPROVER_ensures(__CPROVER_return_value > verif_ghost_m) \
  __CPROVER_assigns()
