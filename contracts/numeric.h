/* Contracts for covfie::utility::round_pow2<T> and covfie::utility::ipow<T>
 * (lib/core/covfie/core/utility/numeric.hpp).  T and W (= bit width of T) are bound by the cell.
 * Postconditions are taken from property C18, not from the code. */

/* least power of two not below i, for 1 <= i <= 2^(W-1) */
#define CONTRACT_round_pow2(i) \
  __CPROVER_requires((i) >= 1 && (i) <= (T)((T)1 << (W - 1))) \
  __CPROVER_ensures(VERIF_ISPOW2(__CPROVER_return_value)) \
  __CPROVER_ensures(__CPROVER_return_value >= (i)) \
  __CPROVER_ensures(__CPROVER_return_value == 1 || __CPROVER_return_value / 2 < (i)) \
  __CPROVER_assigns()

#if defined(VERIF_USE_LOOP_CONTRACTS) && !defined(VERIF_NO_LOOP_CONTRACTS)   /* only the cell that closes the loop by its contract */
#define LOOP_round_pow2_0 \
  __CPROVER_assigns(j) \
  __CPROVER_loop_invariant(VERIF_ISPOW2(j) && (j == 1 || j / 2 < i)) \
  __CPROVER_decreases(j < i ? (T)(i - j) : (T)0)
#endif

/* b^e mod 2^W.  Stated here for the exponents the library passes (0..4 = number of
 * dimensions) as explicit products; the all-(b,e) statement is the recurrence lemma
 * in lemmas/c18.c (decidable at W = 8 only, see DESIGN.md). */
unsigned verif_ghost_k; /* ghost */
#ifdef VERIF_IPOW_SMALL_E
#define CONTRACT_ipow(i, p) \
  __CPROVER_ensures((p) == 0 ==> __CPROVER_return_value == (T)1) \
  __CPROVER_ensures((p) == 1 ==> __CPROVER_return_value == (i)) \
  __CPROVER_ensures((p) == 2 ==> __CPROVER_return_value == (T)((i) * (i))) \
  __CPROVER_ensures((p) == 3 ==> __CPROVER_return_value == (T)((T)((i) * (i)) * (i))) \
  __CPROVER_ensures((p) == 4 ==> __CPROVER_return_value == (T)((T)((T)((i) * (i)) * (i)) * (i))) \
  /* powers of two, with ghost exponent verif_ghost_k: ipow(2^k, p) == 2^(k p) when k p <= W-1 */ \
  __CPROVER_ensures((verif_ghost_k < W && (p) <= 4 && verif_ghost_k * (unsigned)(p) <= W - 1 && (i) == (T)((T)1 << verif_ghost_k)) \
                    ==> __CPROVER_return_value == (T)((T)1 << (verif_ghost_k * (unsigned)(p)))) \
  __CPROVER_assigns()
#else
#define CONTRACT_ipow(i, p) __CPROVER_assigns()
#endif
