/* Common vocabulary of the transformer-layer units.  A layer L over an abstract backend B:
 *   L::at(c) = g( B::at( f(c) ) ).
 * Cell binds: DIMS_IN, IN_SCALAR_T (layer input), B_IN_SCALAR_T (backend input scalar, default = IN_SCALAR_T),
 * DIMS_B_IN (default DIMS_IN), DIMS_OUT, OUT_SCALAR_T (backend output), and B's result is the ghost
 * verif_b_result (arbitrary, chosen by the harness). */
#include "../stubs/types.h"
#ifndef B_IN_SCALAR_T
#define B_IN_SCALAR_T IN_SCALAR_T
#endif
#ifndef DIMS_B_IN
#define DIMS_B_IN DIMS_IN
#endif
typedef struct { B_IN_SCALAR_T m_data[DIMS_B_IN]; } B_IN_VEC_T;   /* contravariant_output_t::vector_t */
#define B_IN_T B_IN_VEC_T
#define B_RET_T OUT_VEC_T
OUT_VEC_T verif_b_result;     /* ghost: what B returns */
#ifndef VERIF_B_DOMAIN
#define VERIF_B_DOMAIN(x) 1   /* abstract backend accepts every coordinate unless the unit says otherwise */
#endif
#define VERIF_B_VALUE(x) verif_b_result
#define OUT_EQ_K(k, a, b) __CPROVER_equal((a).m_data[k], (b).m_data[k])   /* bit-identical, NaN-safe */
#define OUT_EQ(a, b) VERIF_ALL(DIMS_OUT, OUT_EQ_K, a, b)
