/* Contracts for covfie::algebra (matrix.hpp, vector.hpp, affine.hpp) and the affine layer's lookup
 * (backend/transformer/affine.hpp).  C09.  Cell binds DIMS_IN (N) and AT (the scalar type T of
 * algebra::affine<N, T>).  Shapes that occur: N x (N+1) (affine / its matrix base), (N+1) x (N+1) (embedding),
 * (N+1) x 1 (homogeneous vector), N x 1 (vector).
 * Postconditions are stated on the EXACT SUB-DOMAIN the property names ("exact equality over all small-integer
 * matrices and vectors"): every entry is an integer with |x| <= AFF_MAX, so every operation is exact in float,
 * double and int alike and can be compared with plain integer arithmetic. */
#include "../stubs/types.h"
#define N1 (DIMS_IN + 1)
typedef struct { AT m_elems[DIMS_IN][N1]; } MAT_N_N1;   /* matrix<N, N+1, T> / affine<N, T> */
typedef struct { AT m_elems[N1][N1]; } MAT_N1_N1;       /* matrix<N+1, N+1, T> */
typedef struct { AT m_elems[N1][1]; } VEC_N1;           /* vector<N+1, T> */
typedef struct { AT m_elems[DIMS_IN][1]; } VEC_N;       /* vector<N, T> */
typedef struct { AT m_data[DIMS_IN]; } ARGS_T;          /* the parameter pack of translation()/scaling(), as covfie::array<T, N> */
#ifndef AFF_MAX
#define AFF_MAX 16
#endif
#define IS_SMALL_INT(x) ((x) >= -(AT)AFF_MAX && (x) <= (AT)AFF_MAX && (x) == (AT)(long)(x))
#define IS_INT_UPTO(x, b) ((x) >= -(AT)(b) && (x) <= (AT)(b) && (x) == (AT)(long)(x))
#define L(x) ((long)(x))
unsigned verif_ghost_i, verif_ghost_j;   /* ghost row / column */
#if DIMS_IN == 1
#define N1_LIT 2
#elif DIMS_IN == 2
#define N1_LIT 3
#elif DIMS_IN == 3
#define N1_LIT 4
#elif DIMS_IN == 4
#define N1_LIT 5
#endif
#ifndef AFF_VMAX
#define AFF_VMAX 2048   /* vectors may be larger than matrix entries (they are results of earlier applications) */
#endif
/* "every entry is an integer of magnitude <= b", quantifier-free */
#define SMALL_ELT(j, A, i, b) IS_INT_UPTO((A)->m_elems[i][j], b)
#define SMALL_ROW_N1(i, A, b) VERIF_ALLB(N1_LIT, SMALL_ELT, A, i, b)
#define SMALL_MAT_N_N1(A, b) VERIF_ALL(DIMS_IN, SMALL_ROW_N1, A, b)
#define SMALL_MAT_N1_N1(A, b) VERIF_ALL(N1_LIT, SMALL_ROW_N1, A, b)
#define SMALL_ELT0(i, v, b) IS_INT_UPTO((v)->m_elems[i][0], b)
#define SMALL_VEC_N(v, b) VERIF_ALL(DIMS_IN, SMALL_ELT0, v, b)
#define SMALL_VEC_N1(v, b) VERIF_ALL(N1_LIT, SMALL_ELT0, v, b)
#define SMALL_ARR_K(k, c, b) IS_INT_UPTO((c).m_data[k], b)
#define SMALL_ARR(c, b) VERIF_ALL(DIMS_IN, SMALL_ARR_K, c, b)

/* sum_k a[i][k] * b[k][j], in exact integer arithmetic, for inner dimension up to 5 */
#define DOT_K(k, a, b, i, j) (L((a)->m_elems[i][k]) * L((b)->m_elems[k][j]))
#define DOT2(a, b, i, j) (DOT_K(0, a, b, i, j) + DOT_K(1, a, b, i, j))
#define DOT3(a, b, i, j) (DOT2(a, b, i, j) + DOT_K(2, a, b, i, j))
#define DOT4(a, b, i, j) (DOT3(a, b, i, j) + DOT_K(3, a, b, i, j))
#define DOT5(a, b, i, j) (DOT4(a, b, i, j) + DOT_K(4, a, b, i, j))
#if DIMS_IN == 1
#define DOT_N1(a, b, i, j) DOT2(a, b, i, j)
#elif DIMS_IN == 2
#define DOT_N1(a, b, i, j) DOT3(a, b, i, j)
#elif DIMS_IN == 3
#define DOT_N1(a, b, i, j) DOT4(a, b, i, j)
#elif DIMS_IN == 4
#define DOT_N1(a, b, i, j) DOT5(a, b, i, j)
#endif

/* "all entries are small integers": quantifier-free over the (<= 5 x 5) shape via two ghost indices is not
 * enough for a precondition, so preconditions are imposed by the harnesses entry by entry (assumes), and each
 * contract's requires only restates the bound for the ghost entry it talks about. */

/* matrix<N,N+1>::operator*(matrix<N+1,1>) : (A r)_i = sum_k A_ik r_k */
#define CONTRACT_mat_mul_a(self, o) \
  __CPROVER_requires(verif_ghost_i < DIMS_IN && SMALL_MAT_N_N1(self, AFF_MAX) && SMALL_VEC_N1(o, AFF_VMAX)) \
  __CPROVER_ensures(L(__CPROVER_return_value.m_elems[verif_ghost_i][0]) == DOT_N1(self, o, verif_ghost_i, 0) && \
                    __CPROVER_return_value.m_elems[verif_ghost_i][0] == (AT)L(__CPROVER_return_value.m_elems[verif_ghost_i][0])) \
  __CPROVER_assigns()
/* matrix<N+1,N+1>::operator*(matrix<N+1,N+1>) */
#define CONTRACT_mat_mul_b(self, o) \
  __CPROVER_requires(verif_ghost_i < N1 && verif_ghost_j < N1 && SMALL_MAT_N1_N1(self, AFF_MAX) && SMALL_MAT_N1_N1(o, AFF_MAX)) \
  __CPROVER_ensures(L(__CPROVER_return_value.m_elems[verif_ghost_i][verif_ghost_j]) == DOT_N1(self, o, verif_ghost_i, verif_ghost_j) && \
                    __CPROVER_return_value.m_elems[verif_ghost_i][verif_ghost_j] == (AT)L(__CPROVER_return_value.m_elems[verif_ghost_i][verif_ghost_j])) \
  __CPROVER_assigns()

/* matrix<N,N+1>::identity(): ones on the diagonal, zeros elsewhere (incl. the translation column) */
#define CONTRACT_mat_identity() \
  __CPROVER_requires(verif_ghost_i < DIMS_IN && verif_ghost_j < N1) \
  __CPROVER_ensures(__CPROVER_return_value.m_elems[verif_ghost_i][verif_ghost_j] == ((verif_ghost_i == verif_ghost_j) ? (AT)1 : (AT)0)) \
  __CPROVER_assigns()

/* affine::operator*(vector): (A*v)_i = sum_{j<N} A_ij v_j + A_iN */
#define AFF_APPLY_K(k, A, v, i) (L((A)->m_elems[i][k]) * L((v)->m_elems[k][0]))
#if DIMS_IN == 1
#define AFF_APPLY(A, v, i) (AFF_APPLY_K(0, A, v, i) + L((A)->m_elems[i][1]))
#elif DIMS_IN == 2
#define AFF_APPLY(A, v, i) (AFF_APPLY_K(0, A, v, i) + AFF_APPLY_K(1, A, v, i) + L((A)->m_elems[i][2]))
#elif DIMS_IN == 3
#define AFF_APPLY(A, v, i) (AFF_APPLY_K(0, A, v, i) + AFF_APPLY_K(1, A, v, i) + AFF_APPLY_K(2, A, v, i) + L((A)->m_elems[i][3]))
#elif DIMS_IN == 4
#define AFF_APPLY(A, v, i) (AFF_APPLY_K(0, A, v, i) + AFF_APPLY_K(1, A, v, i) + AFF_APPLY_K(2, A, v, i) + AFF_APPLY_K(3, A, v, i) + L((A)->m_elems[i][4]))
#endif
#define CONTRACT_affine_apply(self, v) \
  __CPROVER_requires(verif_ghost_i < DIMS_IN && SMALL_MAT_N_N1(self, AFF_MAX) && SMALL_VEC_N(v, AFF_VMAX)) \
  __CPROVER_ensures(L(__CPROVER_return_value.m_elems[verif_ghost_i][0]) == AFF_APPLY(self, v, verif_ghost_i) && \
                    __CPROVER_return_value.m_elems[verif_ghost_i][0] == (AT)L(__CPROVER_return_value.m_elems[verif_ghost_i][0])) \
  __CPROVER_assigns()

/* affine::operator*(affine): (A*B)_ij = sum_{k<N} A_ik B_kj + (j == N ? A_iN : 0)   -- "apply B, then A" */
#define AFF_MUL_K(k, A, B, i, j) (L((A)->m_elems[i][k]) * L((B)->m_elems[k][j]))
#if DIMS_IN == 1
#define AFF_MUL_SUM(A, B, i, j) (AFF_MUL_K(0, A, B, i, j))
#elif DIMS_IN == 2
#define AFF_MUL_SUM(A, B, i, j) (AFF_MUL_K(0, A, B, i, j) + AFF_MUL_K(1, A, B, i, j))
#elif DIMS_IN == 3
#define AFF_MUL_SUM(A, B, i, j) (AFF_MUL_K(0, A, B, i, j) + AFF_MUL_K(1, A, B, i, j) + AFF_MUL_K(2, A, B, i, j))
#elif DIMS_IN == 4
#define AFF_MUL_SUM(A, B, i, j) (AFF_MUL_K(0, A, B, i, j) + AFF_MUL_K(1, A, B, i, j) + AFF_MUL_K(2, A, B, i, j) + AFF_MUL_K(3, A, B, i, j))
#endif
#define CONTRACT_affine_mul(self, m) \
  __CPROVER_requires(verif_ghost_i < DIMS_IN && verif_ghost_j < N1 && SMALL_MAT_N_N1(self, AFF_MAX) && SMALL_MAT_N_N1(m, AFF_MAX)) \
  __CPROVER_ensures(L(__CPROVER_return_value.m_elems[verif_ghost_i][verif_ghost_j]) == \
                    AFF_MUL_SUM(self, m, verif_ghost_i, verif_ghost_j) + (verif_ghost_j == DIMS_IN ? L((self)->m_elems[verif_ghost_i][DIMS_IN]) : 0) && \
                    __CPROVER_return_value.m_elems[verif_ghost_i][verif_ghost_j] == (AT)L(__CPROVER_return_value.m_elems[verif_ghost_i][verif_ghost_j])) \
  __CPROVER_assigns()

/* translation(t): identity with t in the last column; scaling(s): diag(s), zero translation */
#define CONTRACT_affine_translation(args) \
  __CPROVER_requires(verif_ghost_i < DIMS_IN && verif_ghost_j < N1) \
  __CPROVER_ensures(__CPROVER_return_value.m_elems[verif_ghost_i][verif_ghost_j] == \
                    (verif_ghost_j == DIMS_IN ? (args).m_data[verif_ghost_i] : (verif_ghost_i == verif_ghost_j ? (AT)1 : (AT)0))) \
  __CPROVER_assigns()
#define CONTRACT_affine_scaling(args) \
  __CPROVER_requires(verif_ghost_i < DIMS_IN && verif_ghost_j < N1) \
  __CPROVER_ensures(__CPROVER_return_value.m_elems[verif_ghost_i][verif_ghost_j] == \
                    (verif_ghost_i == verif_ghost_j ? (args).m_data[verif_ghost_i] : (AT)0)) \
  __CPROVER_assigns()

/* the affine layer's lookup: the backend is queried exactly once at A x + t */
typedef struct { MAT_N_N1 m_transform; } AFFINE_SELF_T;
#define IN_SCALAR_T AT
#define B_IN_SCALAR_T AT
#include "layer_common.h"
#define CONTRACT_affine_at(self, c) \
  __CPROVER_requires(verif_ghost_i < DIMS_IN && SMALL_MAT_N_N1(&(self)->m_transform, AFF_MAX) && SMALL_ARR(c, AFF_VMAX) && verif_b_calls == 0) \
  __CPROVER_ensures(verif_b_calls == 1) \
  __CPROVER_ensures(L(verif_b_arg[0].m_data[verif_ghost_i]) == AFF_AT(self, c, verif_ghost_i) && \
                    verif_b_arg[0].m_data[verif_ghost_i] == (AT)L(verif_b_arg[0].m_data[verif_ghost_i])) \
  __CPROVER_ensures(OUT_EQ(__CPROVER_return_value, verif_b_result)) \
  __CPROVER_assigns(VERIF_B_GHOSTS)
#define AFF_AT_K(k, self, c, i) (L((self)->m_transform.m_elems[i][k]) * L((c).m_data[k]))
#if DIMS_IN == 1
#define AFF_AT(self, c, i) (AFF_AT_K(0, self, c, i) + L((self)->m_transform.m_elems[i][1]))
#elif DIMS_IN == 2
#define AFF_AT(self, c, i) (AFF_AT_K(0, self, c, i) + AFF_AT_K(1, self, c, i) + L((self)->m_transform.m_elems[i][2]))
#elif DIMS_IN == 3
#define AFF_AT(self, c, i) (AFF_AT_K(0, self, c, i) + AFF_AT_K(1, self, c, i) + AFF_AT_K(2, self, c, i) + L((self)->m_transform.m_elems[i][3]))
#elif DIMS_IN == 4
#define AFF_AT(self, c, i) (AFF_AT_K(0, self, c, i) + AFF_AT_K(1, self, c, i) + AFF_AT_K(2, self, c, i) + AFF_AT_K(3, self, c, i) + L((self)->m_transform.m_elems[i][4]))
#endif
