/* Contracts for covfie::algebra (matrix.hpp, vector.hpp, affine.hpp) and the affine layer's lookup
 * (backend/transformer/affine.hpp).  C09.  Cell binds DIMS_IN (N) and AT (the scalar type T of
 * algebra::affine<N, T>).  Shapes that occur: N x (N+1) (affine / its matrix base), (N+1) x (N+1) (embedding),
 * (N+1) x 1 (homogeneous vector), N x 1 (vector).
 * Postconditions are stated on the EXACT SUB-DOMAIN the property names ("exact equality over all small-integer
 * matrices and vectors"): every entry is an integer with |x| <= AFF_MAX, so every operation is exact in float,
 * double and int alike and can be compared with plain integer arithmetic. */
#define IN_SCALAR_T AT       /* the layer's coordinate scalar is the matrix scalar */
#define B_IN_SCALAR_T AT
#include "../stubs/types.h"
#define N1 (DIMS_IN + 1)
typedef struct { AT m_elems[DIMS_IN][N1]; } MAT_N_N1;   /* matrix<N, N+1, T> / affine<N, T> */
typedef struct { AT m_elems[N1][N1]; } MAT_N1_N1;       /* matrix<N+1, N+1, T> */
typedef struct { AT m_elems[N1][1]; } VEC_N1;           /* vector<N+1, T> */
typedef struct { AT m_elems[DIMS_IN][1]; } VEC_N;       /* vector<N, T> */
typedef struct { AT m_data[DIMS_IN]; } ARGS_T;          /* the parameter pack of translation()/scaling(), as covfie::array<T, N> */
#ifndef AFF_MAX
#define AFF_MAX 16
#endif
#define IS_SMALL_INT(x) ((x) >= -(AT)AFF_MAX && (x) <= (AT)AFF_MAX && (x) == (AT)(long)(x))
#define IS_INT_UPTO(x, b) ((x) >= -(AT)(b) && (x) <= (AT)(b) && (x) == (AT)(long)(x))
#define L(x) ((long)(x))
unsigned verif_ghost_i, verif_ghost_j;   /* ghost row / column */
#if DIMS_IN == 1
#define N1_LIT 2
#elif DIMS_IN == 2
#define N1_LIT 3
#elif DIMS_IN == 3
#define N1_LIT 4
#elif DIMS_IN == 4
#define N1_LIT 5
#endif
#ifndef AFF_VMAX
#define AFF_VMAX 2048   /* vectors may be larger than matrix entries (they are results of earlier applications) */
#endif
/* "every entry is an integer of magnitude <= b", quantifier-free */
#define SMALL_ELT(j, A, i, b) IS_INT_UPTO((A)->m_elems[i][j], b)
#define SMALL_ROW_N1(i, A, b) VERIF_ALLB(N1_LIT, SMALL_ELT, A, i, b)
#define SMALL_MAT_N_N1(A, b) VERIF_ALL(DIMS_IN, SMALL_ROW_N1, A, b)
#define SMALL_MAT_N1_N1(A, b) VERIF_ALL(N1_LIT, SMALL_ROW_N1, A, b)
#define SMALL_ELT0(i, v, b) IS_INT_UPTO((v)->m_elems[i][0], b)
#define SMALL_VEC_N(v, b) VERIF_ALL(DIMS_IN, SMALL_ELT0, v, b)
#define SMALL_VEC_N1(v, b) VERIF_ALL(N1_LIT, SMALL_ELT0, v, b)
#define SMALL_ARR_K(k, c, b) IS_INT_UPTO((c).m_data[k], b)
#define SMALL_ARR(c, b) VERIF_ALL(DIMS_IN, SMALL_ARR_K, c, b)

/* sum_k a[i][k] * b[k][j] accumulated from 0 in index order, IN THE SCALAR TYPE T -- the textbook definition of the
 * product with the summation order fixed.  Stated this way the contract holds for every value of T (all floats,
 * all ints modulo 2^w), not only on the small-integer sub-domain; the lemmas (T = unsigned) relate different summation
 * orders as ring identities. */
#define TERM(k, a, b, i, j) ((a)->m_elems[i][k] * (b)->m_elems[k][j])
#define SUM2(a, b, i, j) (((AT)0 + TERM(0, a, b, i, j)) + TERM(1, a, b, i, j))
#define SUM3(a, b, i, j) (SUM2(a, b, i, j) + TERM(2, a, b, i, j))
#define SUM4(a, b, i, j) (SUM3(a, b, i, j) + TERM(3, a, b, i, j))
#define SUM5(a, b, i, j) (SUM4(a, b, i, j) + TERM(4, a, b, i, j))
#if DIMS_IN == 1
#define SUM_N1(a, b, i, j) SUM2(a, b, i, j)
#elif DIMS_IN == 2
#define SUM_N1(a, b, i, j) SUM3(a, b, i, j)
#elif DIMS_IN == 3
#define SUM_N1(a, b, i, j) SUM4(a, b, i, j)
#elif DIMS_IN == 4
#define SUM_N1(a, b, i, j) SUM5(a, b, i, j)
#endif

/* matrix<N,N+1>::operator*(matrix<N+1,1>) : (A r)_i = sum_k A_ik r_k */
/* (stated for every row with CONCRETE indices: a ghost row index would turn the comparison into an equivalence check of
 * different multiplier circuits, which SAT does not finish for floats) */
#define MULA_ROW(i, r, self, o) __CPROVER_equal((r).m_elems[i][0], (AT)SUM_N1(self, o, i, 0))
#define CONTRACT_mat_mul_a(self, o) \
  __CPROVER_ensures(VERIF_ALL(DIMS_IN, MULA_ROW, __CPROVER_return_value, self, o)) \
  __CPROVER_assigns()
/* matrix<N+1,N+1>::operator*(matrix<N+1,N+1>) */
#define MULB_ELT(j, r, self, o, i) __CPROVER_equal((r).m_elems[i][j], (AT)SUM_N1(self, o, i, j))
#define MULB_ROW(i, r, self, o) VERIF_ALLB(N1_LIT, MULB_ELT, r, self, o, i)
#define CONTRACT_mat_mul_b(self, o) \
  __CPROVER_ensures(VERIF_ALL(N1_LIT, MULB_ROW, __CPROVER_return_value, self, o)) \
  __CPROVER_assigns()

/* matrix<N,N+1>::identity(): ones on the diagonal, zeros elsewhere (incl. the translation column) */
#define CONTRACT_mat_identity() \
  __CPROVER_requires(verif_ghost_i < DIMS_IN && verif_ghost_j < N1) \
  __CPROVER_ensures(__CPROVER_equal(__CPROVER_return_value.m_elems[verif_ghost_i][verif_ghost_j], ((verif_ghost_i == verif_ghost_j) ? (AT)1 : (AT)0))) \
  __CPROVER_assigns()

/* affine::operator*(vector): (A*v)_i = sum_{j<N} A_ij v_j + A_iN * 1 (homogeneous coordinate), same summation order */
#define ATERM(k, A, v, i) ((A)->m_elems[i][k] * (v)->m_elems[k][0])
#define ASUM1(A, v, i) ((AT)0 + ATERM(0, A, v, i))
#define ASUM2(A, v, i) (ASUM1(A, v, i) + ATERM(1, A, v, i))
#define ASUM3(A, v, i) (ASUM2(A, v, i) + ATERM(2, A, v, i))
#define ASUM4(A, v, i) (ASUM3(A, v, i) + ATERM(3, A, v, i))
#define AFF_APPLY(A, v, i) (VERIF_CAT(ASUM, DIMS_IN)(A, v, i) + (A)->m_elems[i][DIMS_IN] * (AT)1)
#define APPLY_ROW(i, r, self, v) __CPROVER_equal((r).m_elems[i][0], (AT)AFF_APPLY(self, v, i))
#define CONTRACT_affine_apply(self, v) \
  __CPROVER_ensures(VERIF_ALL(DIMS_IN, APPLY_ROW, __CPROVER_return_value, self, v)) \
  __CPROVER_assigns()

/* affine::operator*(affine): (A*B)_ij = sum_{k<N} A_ik B_kj + A_iN * (j == N ? 1 : 0)   -- "apply B, then A" */
#define MTERM(k, A, B, i, j) ((A)->m_elems[i][k] * (B)->m_elems[k][j])
#define MSUM1(A, B, i, j) ((AT)0 + MTERM(0, A, B, i, j))
#define MSUM2(A, B, i, j) (MSUM1(A, B, i, j) + MTERM(1, A, B, i, j))
#define MSUM3(A, B, i, j) (MSUM2(A, B, i, j) + MTERM(2, A, B, i, j))
#define MSUM4(A, B, i, j) (MSUM3(A, B, i, j) + MTERM(3, A, B, i, j))
#define AFF_MUL(A, B, i, j) (VERIF_CAT(MSUM, DIMS_IN)(A, B, i, j) + (A)->m_elems[i][DIMS_IN] * ((j) == DIMS_IN ? (AT)1 : (AT)0))
#define AMUL_ELT(j, r, self, m, i) __CPROVER_equal((r).m_elems[i][j], (AT)AFF_MUL(self, m, i, j))
#define AMUL_ROW(i, r, self, m) VERIF_ALLB(N1_LIT, AMUL_ELT, r, self, m, i)
#define CONTRACT_affine_mul(self, m) \
  __CPROVER_ensures(VERIF_ALL(DIMS_IN, AMUL_ROW, __CPROVER_return_value, self, m)) \
  __CPROVER_assigns()

/* translation(t): identity with t in the last column; scaling(s): diag(s), zero translation */
#define CONTRACT_affine_translation(args) \
  __CPROVER_requires(verif_ghost_i < DIMS_IN && verif_ghost_j < N1) \
  __CPROVER_ensures(__CPROVER_equal(__CPROVER_return_value.m_elems[verif_ghost_i][verif_ghost_j], \
                    (verif_ghost_j == DIMS_IN ? (args).m_data[verif_ghost_i] : (verif_ghost_i == verif_ghost_j ? (AT)1 : (AT)0)))) \
  __CPROVER_assigns()
#define CONTRACT_affine_scaling(args) \
  __CPROVER_requires(verif_ghost_i < DIMS_IN && verif_ghost_j < N1) \
  __CPROVER_ensures(__CPROVER_equal(__CPROVER_return_value.m_elems[verif_ghost_i][verif_ghost_j], \
                    (verif_ghost_i == verif_ghost_j ? (args).m_data[verif_ghost_i] : (AT)0))) \
  __CPROVER_assigns()

/* the affine layer's lookup: the backend is queried exactly once at A x + t */
typedef struct { MAT_N_N1 m_transform; } AFFINE_SELF_T;
#include "layer_common.h"
#define CTERM(k, self, c, i) ((self)->m_transform.m_elems[i][k] * (c).m_data[k])
#define CSUM1(self, c, i) ((AT)0 + CTERM(0, self, c, i))
#define CSUM2(self, c, i) (CSUM1(self, c, i) + CTERM(1, self, c, i))
#define CSUM3(self, c, i) (CSUM2(self, c, i) + CTERM(2, self, c, i))
#define CSUM4(self, c, i) (CSUM3(self, c, i) + CTERM(3, self, c, i))
#define AFF_AT(self, c, i) (VERIF_CAT(CSUM, DIMS_IN)(self, c, i) + (self)->m_transform.m_elems[i][DIMS_IN] * (AT)1)
#define AT_ROW(i, a, self, c) __CPROVER_equal((a).m_data[i], (AT)AFF_AT(self, c, i))
#define CONTRACT_affine_at(self, c) \
  __CPROVER_requires(verif_b_calls == 0) \
  __CPROVER_ensures(verif_b_calls == 1) \
  __CPROVER_ensures(VERIF_ALL(DIMS_IN, AT_ROW, verif_b_arg[0], self, c)) \
  __CPROVER_ensures(OUT_EQ(__CPROVER_return_value, verif_b_result)) \
  __CPROVER_assigns(VERIF_B_GHOSTS)
