/* Contracts for covfie::backend::array<...>::owning_data_t::read_binary / write_binary
 * (lib/core/covfie/core/backend/primitive/array.hpp).  Golden grammar of the pinned revision:
 *   LE32(C04F1EAB) LE32(AB010000) LE32(width in {4,8}) LE64(count) count*M scalars of `width` bytes
 *   LE32(C04F1E70) LE32(CB010000)
 * Cell binds DIMS_OUT (M) and OUT_SCALAR_T (in-memory scalar: float or double). */
#ifndef DIMS_OUT
#define DIMS_OUT 3
#endif
#include "../stubs/types.h"
#include "binary_io.h"
#define GOLDEN_TAG_ARRAY 0xAB010000u
static const uint32_t verif_tag_array_obj = VERIF_TAG_ARRAY;
typedef struct { uint64_t m_size; OUT_VEC_T *m_ptr; } ARRAY_OWN_T;   /* owning_data_t: m_ptr is unique_ptr<vector_t[]> */
#define ARRAY_IO_MAX_ELEMS ((uint64_t)1 << 32)

/* std::make_unique<vector_t[]>(n): fresh block of n value-initialised (zero) elements (R12; ASSUMED contract) */
static OUT_VEC_T *verif_make_unique_array(uint64_t n)
{
  __CPROVER_assume(n <= ARRAY_IO_MAX_ELEMS);   /* larger requests: std::bad_alloc / memory exhaustion, not covered */
  return (OUT_VEC_T *)calloc(n, sizeof(OUT_VEC_T));
}
/* owning_data_t(std::size_t size, std::unique_ptr<vector_t[]> && ptr): takes ownership (not extracted: ctor) */
static ARRAY_OWN_T verif_array_own_ctor(uint64_t size, OUT_VEC_T *ptr) { ARRAY_OWN_T r; r.m_size = size; r.m_ptr = ptr; return r; }

unsigned long verif_ghost_K;  /* ghost element index */
unsigned verif_ghost_J;       /* ghost component index */

/* value of the stored scalar (K,J) of an image starting at p0 with the given width, converted to the in-memory type */
static float verif_bits_f32(uint32_t u) { union { float f; uint32_t u; } x; x.u = u; return x.f; }
static double verif_bits_f64(uint64_t u) { union { double f; uint64_t u; } x; x.u = u; return x.f; }
/* multiplication by the width word as a case split (keeps every product linear for the solver) */
#define MULW(x, w) ((w) == 4 ? (size_t)(x) * 4 : (size_t)(x) * 8)
#define PAYLOAD_OFF(p0, w, K, J) ((p0) + 20 + MULW((K) * DIMS_OUT + (J), w))
/* (call-free so that it can appear in a loop invariant: the stored scalar is read through a typed pointer) */
#define STORED_AS_MEM(fs, p0, w, K, J) \
  ((w) == 4 ? (OUT_SCALAR_T)(*(const float *)((fs)->buf + PAYLOAD_OFF(p0, 4, K, J))) \
            : (OUT_SCALAR_T)(*(const double *)((fs)->buf + PAYLOAD_OFF(p0, 8, K, J))))

#define IMG_WIDTH(fs, p0) LE32_AT((fs)->buf, (p0) + 8)
#define IMG_COUNT(fs, p0) LE64_AT((fs)->buf, (p0) + 12)
#define IMG_PAYLOAD(fs, p0) MULW(IMG_COUNT(fs, p0) * DIMS_OUT, IMG_WIDTH(fs, p0))
#define ARRAY_IMAGE_OK(fs, p0) \
  ((fs)->len - (p0) >= 20 && LE32_AT((fs)->buf, (p0)) == GOLDEN_MAGIC_HEADER && LE32_AT((fs)->buf, (p0) + 4) == GOLDEN_TAG_ARRAY && \
   (IMG_WIDTH(fs, p0) == 4 || IMG_WIDTH(fs, p0) == 8) && IMG_COUNT(fs, p0) <= ARRAY_IO_MAX_ELEMS && \
   (fs)->len - (p0) - 20 >= IMG_PAYLOAD(fs, p0) + 8 && \
   LE32_AT((fs)->buf, (p0) + 20 + IMG_PAYLOAD(fs, p0)) == GOLDEN_MAGIC_FOOTER && \
   LE32_AT((fs)->buf, (p0) + 24 + IMG_PAYLOAD(fs, p0)) == (uint32_t)(GOLDEN_TAG_ARRAY + GOLDEN_FOOTER_OFFSET))

#define CONTRACT_array_read_binary(fs) \
  RB_PRE(fs) \
  __CPROVER_requires(verif_ghost_J < DIMS_OUT) \
  /* count words above the modelled allocation limit are excluded (memory exhaustion is not covered) */ \
  __CPROVER_requires(!((fs)->len - (fs)->pos >= 20) || IMG_COUNT(fs, (fs)->pos) <= ARRAY_IO_MAX_ELEMS) \
  __CPROVER_ensures(ARRAY_IMAGE_OK(fs, __CPROVER_old((fs)->pos)) ==> verif_thrown == 0)   /* a well-formed image loads */ \
  __CPROVER_ensures(verif_thrown == 0 ==> ARRAY_IMAGE_OK(fs, __CPROVER_old((fs)->pos)))   /* anything else is rejected by an exception */ \
  __CPROVER_ensures(verif_thrown == 0 ==> (fs)->pos == __CPROVER_old((fs)->pos) + 28 + IMG_PAYLOAD(fs, __CPROVER_old((fs)->pos))) \
  __CPROVER_ensures(verif_thrown == 0 ==> __CPROVER_return_value.m_size == IMG_COUNT(fs, __CPROVER_old((fs)->pos))) \
  __CPROVER_ensures((verif_thrown == 0 && verif_ghost_K < __CPROVER_return_value.m_size) ==> \
     __CPROVER_equal(__CPROVER_return_value.m_ptr[verif_ghost_K].m_data[verif_ghost_J], \
                     STORED_AS_MEM(fs, __CPROVER_old((fs)->pos), IMG_WIDTH(fs, __CPROVER_old((fs)->pos)), verif_ghost_K, verif_ghost_J))) \
  __CPROVER_ensures((fs)->pos <= (fs)->len) \
  RB_FRAME(fs)

#if defined(VERIF_USE_LOOP_CONTRACTS)
/* outer element loop of read_binary (the inner component loop is unwound to M first) */
#define LOOP_array_read_binary_0 \
  __CPROVER_assigns(i, fs->pos, fs->failbit, fs->eofbit, verif_thrown, __CPROVER_object_whole(ptr)) \
  __CPROVER_loop_invariant(i <= size && verif_thrown == 0 && !fs->failbit && !fs->eofbit) \
  __CPROVER_loop_invariant(fs->pos == verif_p0 + 20 + MULW(i * DIMS_OUT, float_width) && fs->pos <= fs->len) \
  __CPROVER_loop_invariant(verif_ghost_K < i ==> __CPROVER_equal(ptr[verif_ghost_K].m_data[verif_ghost_J], STORED_AS_MEM(fs, verif_p0, float_width, verif_ghost_K, verif_ghost_J))) \
  __CPROVER_decreases(size - i)
#endif
size_t verif_p0;  /* ghost: stream position at entry (set by the harness; loop invariants cannot use __CPROVER_old) */

/* ---------------- writer */
#define MEM_BITS_EQ_STORED(fs, l0, o, K, J) \
  __CPROVER_equal(*(const OUT_SCALAR_T *)((fs)->buf + PAYLOAD_OFF(l0, sizeof(OUT_SCALAR_T), K, J)), (o)->m_ptr[K].m_data[J])
#define ARRAY_IMAGE_LEN(o) (28 + (o)->m_size * DIMS_OUT * sizeof(OUT_SCALAR_T))
#define CONTRACT_array_write_binary(fs, o) \
  __CPROVER_requires((o)->m_size <= ARRAY_IO_MAX_ELEMS && __CPROVER_is_fresh((o)->m_ptr, (o)->m_size * sizeof(OUT_VEC_T))) \
  __CPROVER_requires(OSTREAM_VALID(fs) && (fs)->cap - (fs)->len >= ARRAY_IMAGE_LEN(o)) \
  __CPROVER_requires(__CPROVER_is_fresh((fs)->buf, (fs)->cap)) \
  __CPROVER_requires(verif_ghost_J < DIMS_OUT && verif_l0 == (fs)->len) \
  __CPROVER_ensures((fs)->len == verif_l0 + ARRAY_IMAGE_LEN(o)) \
  __CPROVER_ensures(LE32_AT((fs)->buf, verif_l0) == GOLDEN_MAGIC_HEADER && LE32_AT((fs)->buf, verif_l0 + 4) == GOLDEN_TAG_ARRAY) \
  __CPROVER_ensures(LE32_AT((fs)->buf, verif_l0 + 8) == sizeof(OUT_SCALAR_T) && LE64_AT((fs)->buf, verif_l0 + 12) == (o)->m_size) \
  __CPROVER_ensures(verif_ghost_K < (o)->m_size ==> MEM_BITS_EQ_STORED(fs, verif_l0, o, verif_ghost_K, verif_ghost_J)) \
  __CPROVER_ensures(LE32_AT((fs)->buf, (fs)->len - 8) == GOLDEN_MAGIC_FOOTER && LE32_AT((fs)->buf, (fs)->len - 4) == (uint32_t)(GOLDEN_TAG_ARRAY + GOLDEN_FOOTER_OFFSET)) \
  /* frame: only the length and bytes at or after the entry length are written (earlier output is untouched) */ \
  __CPROVER_assigns((fs)->len, __CPROVER_object_from((fs)->buf + (fs)->len))
size_t verif_l0;      /* ghost: output length at entry */
#if defined(VERIF_USE_LOOP_CONTRACTS)
#define LOOP_array_write_binary_0 \
  __CPROVER_assigns(i, fs->len, __CPROVER_object_from(fs->buf + verif_l0)) \
  __CPROVER_loop_invariant(i <= o->m_size) \
  __CPROVER_loop_invariant(fs->len == verif_l0 + 20 + i * DIMS_OUT * sizeof(OUT_SCALAR_T)) \
  __CPROVER_loop_invariant(LE32_AT(fs->buf, verif_l0) == GOLDEN_MAGIC_HEADER && LE32_AT(fs->buf, verif_l0 + 4) == GOLDEN_TAG_ARRAY) \
  __CPROVER_loop_invariant(LE32_AT(fs->buf, verif_l0 + 8) == sizeof(OUT_SCALAR_T) && LE64_AT(fs->buf, verif_l0 + 12) == o->m_size) \
  __CPROVER_loop_invariant(verif_ghost_K < i ==> MEM_BITS_EQ_STORED(fs, verif_l0, o, verif_ghost_K, verif_ghost_J)) \
  __CPROVER_decreases(o->m_size - i)
#endif
