/* Contracts for the Hilbert layer (lib/core/covfie/core/backend/transformer/hilbert.hpp).
 * Cell binds HILBERT_K (curve order k: side 2^k); DIMS_IN = 2 is fixed by the layer's static_assert.
 * C14: the layer visits every cell of a 2^k x 2^k square exactly once, starting at the origin, with
 * consecutive positions in edge-adjacent cells.  C01: for every extent vector the map is in bounds and
 * injective on the box.  One cell per k: each cell is complete for its grid; the family over k is BOUNDED. */
#include "../stubs/types.h"
typedef struct { ND_SIZE_T m_sizes; } HILBERT_SELF_T;
typedef struct verif_elem *OUT_VEC_PTR_T;
#define B_IN_T size_t
#define B_RET_T OUT_VEC_PTR_T
OUT_VEC_PTR_T verif_b_result;
size_t verif_b_size;
#define VERIF_B_DOMAIN(x) ((x) < verif_b_size)
#define VERIF_B_VALUE(x) verif_b_result

#define HSIDE ((size_t)1 << HILBERT_K)

/* quadrant rotation/reflection of the published algorithm (full functional contract) */
#define CONTRACT_hilbert_rot(n, x, y, rx, ry) \
  __CPROVER_requires(__CPROVER_is_fresh(x, sizeof(size_t)) && __CPROVER_is_fresh(y, sizeof(size_t))) \
  __CPROVER_requires(*(x) < (n) && *(y) < (n)) \
  __CPROVER_ensures((ry) != 0 ==> (*(x) == __CPROVER_old(*(x)) && *(y) == __CPROVER_old(*(y)))) \
  __CPROVER_ensures(((ry) == 0 && (rx) == 1) ==> (*(x) == (n) - 1 - __CPROVER_old(*(y)) && *(y) == (n) - 1 - __CPROVER_old(*(x)))) \
  __CPROVER_ensures(((ry) == 0 && (rx) != 1) ==> (*(x) == __CPROVER_old(*(y)) && *(y) == __CPROVER_old(*(x)))) \
  __CPROVER_ensures(*(x) < (n) && *(y) < (n)) \
  __CPROVER_assigns(*(x), *(y))

/* extent vectors of a cell: VERIF_HILBERT_SQUARE -> exactly (2^k, 2^k); otherwise every extent vector
 * whose power-of-two hull has side 2^k (max extent in (2^(k-1), 2^k]) */
#ifdef VERIF_HILBERT_SQUARE
#define HILBERT_SIZES_OK(s) ((s).m_data[0] == HSIDE && (s).m_data[1] == HSIDE)
#else
#define HILBERT_SIZES_OK(s) \
  ((s).m_data[0] >= 1 && (s).m_data[1] >= 1 && (s).m_data[0] <= HSIDE && (s).m_data[1] <= HSIDE && \
   (HILBERT_K == 0 || (s).m_data[0] > HSIDE / 2 || (s).m_data[1] > HSIDE / 2))
#endif
#define HILBERT_C_OK(c, s) ((c).m_data[0] < (s).m_data[0] && (c).m_data[1] < (s).m_data[1])

#define CONTRACT_hilbert_calculate_index(c, sizes) \
  __CPROVER_requires(HILBERT_SIZES_OK(sizes) && HILBERT_C_OK(c, sizes)) \
  __CPROVER_ensures(__CPROVER_return_value < HSIDE * HSIDE) \
  __CPROVER_ensures(((c).m_data[0] == 0 && (c).m_data[1] == 0) ==> __CPROVER_return_value == 0) \
  __CPROVER_assigns()

/* allocation size = ipow(round_pow2(max extent), 2) = 4^k */
#define CONTRACT_hilbert_alloc_size_copy(sizes) \
  __CPROVER_requires(HILBERT_SIZES_OK(sizes)) \
  __CPROVER_ensures(__CPROVER_return_value == HSIDE * HSIDE) \
  __CPROVER_assigns()
#define CONTRACT_hilbert_alloc_size_ctor(m_sizes) \
  __CPROVER_requires(HILBERT_SIZES_OK(m_sizes)) \
  __CPROVER_ensures(__CPROVER_return_value == HSIDE * HSIDE) \
  __CPROVER_assigns()

/* lookup: B queried exactly once, inside its domain (storage of 4^k cells), at the curve position */
size_t verif_expected_idx;  /* ghost: set by the harness to hilbert_calculate_index(c, sizes) */
#define CONTRACT_hilbert_at(self, c) \
  __CPROVER_requires(HILBERT_SIZES_OK((self)->m_sizes) && HILBERT_C_OK(c, (self)->m_sizes)) \
  __CPROVER_requires(verif_b_size == HSIDE * HSIDE && verif_b_calls == 0) \
  __CPROVER_ensures(verif_b_calls == 1) \
  __CPROVER_ensures(verif_b_arg[0] == verif_expected_idx) \
  __CPROVER_ensures(__CPROVER_return_value == verif_b_result) \
  __CPROVER_assigns(VERIF_B_GHOSTS)
