// Native replay for the Hilbert unit: the real static index function on the grid of the cell.
#include <covfie/core/backend/primitive/array.hpp>
#include <covfie/core/backend/transformer/hilbert.hpp>
#include "replay_util.hpp"
#include <string>
using hil_t = covfie::backend::hilbert<covfie::vector::size2, covfie::backend::array<covfie::vector::float1>>;
using coord_t = hil_t::coordinate_t;
int main(int argc, char ** argv)
{
    replay_inputs in(argc, argv);
    covfie::utility::nd_size<2> sizes;
    const std::size_t side = (std::size_t)1 << HILBERT_K;
    for (unsigned k = 0; k < 2; ++k)
        sizes[k] = in.has("in_sizes.m_data[" + std::to_string(k) + "]") ? in.get<std::size_t>("in_sizes.m_data[" + std::to_string(k) + "]")
                 : in.has("in_self.m_sizes.m_data[" + std::to_string(k) + "]") ? in.get<std::size_t>("in_self.m_sizes.m_data[" + std::to_string(k) + "]") : side;
    auto rd = [&](const char * nm, coord_t & c) {
        if (!in.has(std::string(nm) + ".m_data[0]")) return false;
        for (unsigned k = 0; k < 2; ++k) c[k] = in.get<std::size_t>(std::string(nm) + ".m_data[" + std::to_string(k) + "]");
        return c[0] < sizes[0] && c[1] < sizes[1];
    };
    int bad = 0;
    coord_t c, c1, c2;
    std::printf("extents (%zu,%zu), curve order k=%d (hull side %zu)\n", sizes[0], sizes[1], HILBERT_K, side);
    if (rd("in_c", c)) {
        std::size_t d = hil_t::calculate_index(c, sizes);
        bool ok = d < side * side && !(c[0] == 0 && c[1] == 0 && d != 0);
        std::printf("d(%zu,%zu) = %zu : %s\n", c[0], c[1], d, ok ? "ok" : "OUT OF RANGE or origin not at 0");
        bad |= !ok;
    }
    if (rd("in_c1", c1) && rd("in_c2", c2)) {
        std::size_t d1 = hil_t::calculate_index(c1, sizes), d2 = hil_t::calculate_index(c2, sizes);
        bool same = c1[0] == c2[0] && c1[1] == c2[1];
        std::size_t dx = c1[0] > c2[0] ? c1[0] - c2[0] : c2[0] - c1[0], dy = c1[1] > c2[1] ? c1[1] - c2[1] : c2[1] - c1[1];
        bool inj = !(d1 == d2 && !same);
        bool adj = !(sizes[0] == side && sizes[1] == side && d2 == d1 + 1 && dx + dy != 1);
        std::printf("d(%zu,%zu) = %zu, d(%zu,%zu) = %zu : %s%s\n", c1[0], c1[1], d1, c2[0], c2[1], d2,
                    inj ? "" : "TWO CELLS SHARE A POSITION ", adj ? "" : "CONSECUTIVE POSITIONS NOT EDGE-ADJACENT");
        bad |= !inj || !adj;
    }
    return bad ? 1 : 0;
}
