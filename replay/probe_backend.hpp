// A user-defined probe backend satisfying covfie::concepts::field_backend: records every coordinate it is
// asked for and returns a value computed by a user-supplied function of the coordinate.
#pragma once
#include <covfie/core/concepts.hpp>
#include <covfie/core/parameter_pack.hpp>
#include <covfie/core/vector.hpp>
#include <iostream>
#include <variant>
#include <vector>

template <typename IVD, typename OVD>
struct probe_backend {
    using this_t = probe_backend<IVD, OVD>;
    static constexpr bool is_initial = true;
    using contravariant_input_t = covfie::vector::array_vector_d<IVD>;
    using covariant_output_t = covfie::vector::array_vector_d<OVD>;
    using configuration_t = std::monostate;
    static constexpr uint32_t IO_MAGIC_HEADER = 0xAB01FFFF;
    using in_t = typename contravariant_input_t::vector_t;
    using out_t = typename covariant_output_t::vector_t;
    static inline std::vector<in_t> queries;
    static inline out_t (*value)(in_t) = nullptr;
    struct owning_data_t {
        using parent_t = this_t;
        owning_data_t() = default;
        owning_data_t(const owning_data_t &) = default;
        owning_data_t(owning_data_t &&) = default;
        owning_data_t & operator=(const owning_data_t &) = default;
        owning_data_t & operator=(owning_data_t &&) = default;
        explicit owning_data_t(configuration_t) {}
        explicit owning_data_t(covfie::parameter_pack<configuration_t> &&) {}
        explicit owning_data_t(covfie::parameter_pack<owning_data_t> &&) {}
        configuration_t get_configuration() const { return {}; }
        static owning_data_t read_binary(std::istream &) { return owning_data_t(); }
        static void write_binary(std::ostream &, const owning_data_t &) {}
    };
    struct non_owning_data_t {
        using parent_t = this_t;
        non_owning_data_t(const owning_data_t &) {}
        out_t at(in_t c) const
        {
            queries.push_back(c);
            return value(c);
        }
    };
};
