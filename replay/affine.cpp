// Native replay for the affine algebra / layer: the real templates instantiated at the cell's scalar type (AT) and
// dimension, compared with the textbook formulas evaluated directly in that type.
#include <covfie/core/algebra/affine.hpp>
#include <covfie/core/backend/primitive/identity.hpp>
#include <covfie/core/backend/transformer/affine.hpp>
#include "replay_util.hpp"
#include <string>
constexpr std::size_t N = DIMS_IN;
using aff_t = covfie::algebra::affine<N, AT>;
using vec_t = covfie::algebra::vector<N, AT>;
static bool rd_aff(const replay_inputs & in, const std::string & nm, aff_t & a)
{
    if (!in.has(nm + ".m_elems[0][0]")) return false;
    covfie::algebra::matrix<N, N + 1, AT> m;
    for (std::size_t i = 0; i < N; ++i) for (std::size_t j = 0; j < N + 1; ++j)
        m(i, j) = in.get<AT>(nm + ".m_elems[" + std::to_string(i) + "][" + std::to_string(j) + "]");
    a = aff_t(m);
    return true;
}
int main(int argc, char ** argv)
{
    replay_inputs in(argc, argv);
    int bad = 0;
    aff_t a, b;
    bool ha = rd_aff(in, "in_a", a) || rd_aff(in, "in_self.m_transform", a), hb = rd_aff(in, "in_b", b);
    if (ha && hb) {   // (A*B)_ij = sum_k A_ik B_kj + [j == N] A_iN
        aff_t p = a * b;
        for (std::size_t i = 0; i < N; ++i) for (std::size_t j = 0; j < N + 1; ++j) {
            AT e = 0;
            for (std::size_t k = 0; k < N; ++k) e = (AT)(e + a(i, k) * b(k, j));
            if (j == N) e = (AT)(e + a(i, N));
            if (p(i, j) != e) { std::printf("(A*B)(%zu,%zu) = %.17g, composition matrix has %.17g\n", i, j, (double)p(i, j), (double)e); bad = 1; }
        }
        if (!bad) std::printf("A*B is the composition matrix: ok\n");
    }
    vec_t v;
    bool hv = false;
    for (std::size_t i = 0; i < N; ++i) {
        std::string n1 = "in_v.m_elems[" + std::to_string(i) + "][0]", n2 = "in_c.m_data[" + std::to_string(i) + "]";
        if (in.has(n1)) { v(i) = in.get<AT>(n1); hv = true; } else if (in.has(n2)) { v(i) = in.get<AT>(n2); hv = true; }
    }
    if (ha && hv) {   // (A v)_i = sum_j A_ij v_j + A_iN, through the algebra and through the layer over identity
        vec_t r = a * v;
        using ident_t = covfie::backend::identity<covfie::vector::vector_d<AT, N>>;
        using layer_t = covfie::backend::affine<ident_t>;
        typename layer_t::owning_data_t own(a, typename ident_t::owning_data_t{});
        typename layer_t::non_owning_data_t view(own);
        typename layer_t::contravariant_input_t::vector_t c;
        for (std::size_t i = 0; i < N; ++i) c[i] = v(i);
        auto q = view.at(c);
        for (std::size_t i = 0; i < N; ++i) {
            AT e = 0;
            for (std::size_t k = 0; k < N; ++k) e = (AT)(e + a(i, k) * v(k));
            e = (AT)(e + a(i, N));
            if (r(i) != e) { std::printf("(A*v)(%zu) = %.17g, expected %.17g\n", i, (double)r(i), (double)e); bad = 1; }
            if (q[i] != e) { std::printf("affine layer queried its backend at component %zu = %.17g, A x + t has %.17g\n", i, (double)q[i], (double)e); bad = 1; }
        }
        if (!bad) std::printf("A*v and the layer's lookup: ok\n");
    }
    return bad;
}
