// Native replay for the clamp unit: clamp<identity> shows the delegated coordinate (C10 observe_at).
#include <covfie/core/backend/primitive/identity.hpp>
#include <covfie/core/backend/transformer/clamp.hpp>
#include "replay_util.hpp"
#include <string>
using vd = covfie::vector::vector_d<IN_SCALAR_T, DIMS_IN>;
using ident_t = covfie::backend::identity<vd>;
using clamp_t = covfie::backend::clamp<ident_t>;
int main(int argc, char ** argv)
{
    replay_inputs in(argc, argv);
    typename clamp_t::configuration_t conf;
    typename clamp_t::contravariant_input_t::vector_t c;
    for (unsigned k = 0; k < DIMS_IN; ++k) {
        conf.min[k] = in.get<IN_SCALAR_T>("in_self.m_min.m_data[" + std::to_string(k) + "]");
        conf.max[k] = in.get<IN_SCALAR_T>("in_self.m_max.m_data[" + std::to_string(k) + "]");
        c[k] = in.get<IN_SCALAR_T>("in_c.m_data[" + std::to_string(k) + "]");
        if (!(conf.min[k] <= conf.max[k]) || c[k] != c[k]) { std::printf("outside the domain (min > max or NaN)\n"); return 0; }
    }
    typename clamp_t::owning_data_t own(conf, typename ident_t::owning_data_t{});
    typename clamp_t::non_owning_data_t view(own);
    auto r = view.at(c);
    int bad = 0;
    for (unsigned k = 0; k < DIMS_IN; ++k) {
        IN_SCALAR_T spec = c[k] < conf.min[k] ? conf.min[k] : conf.max[k] < c[k] ? conf.max[k] : c[k];
        bool ok = r[k] == spec;
        std::printf("component %u: coordinate %.17g box [%.17g, %.17g] delegated %.17g expected %.17g : %s\n", k, (double)c[k],
                    (double)conf.min[k], (double)conf.max[k], (double)r[k], (double)spec, ok ? "ok" : "MISMATCH");
        bad |= !ok;
    }
    return bad;
}
