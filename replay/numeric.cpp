// Native replay for the numeric unit: evaluates C18's statement on the real templates.
#include <covfie/core/utility/numeric.hpp>
#include "replay_util.hpp"
#include <cstdint>
int main(int argc, char ** argv)
{
    replay_inputs in(argc, argv);
    int bad = 0;
    if (in.has("in_i")) {
        T i = in.get<T>("in_i");
        T r = covfie::utility::round_pow2<T>(i);
        bool pow2 = r != 0 && (r & (r - 1)) == 0;
        bool ok = pow2 && r >= i && (r == 1 || r / 2 < i);
        std::printf("round_pow2<%d bit>(%llu) = %llu : %s\n", W, (unsigned long long)i, (unsigned long long)r, ok ? "ok" : "NOT the least power of two >= i");
        bad |= !ok;
    }
    if (in.has("in_b") && in.has("in_e")) {
        T b = in.get<T>("in_b"), e = in.get<T>("in_e");
        T r = covfie::utility::ipow<T>(b, e);
        T spec = 1;
        // b^e mod 2^W by repeated multiplication (capped: beyond 2^22 steps use the recurrence check only)
        bool full = (uint64_t)e <= (1ull << 22);
        if (full) { for (uint64_t k = 0; k < (uint64_t)e; ++k) spec = (T)(spec * b); }
        bool ok = !full || r == spec;
        if (e != (T)-1) {
            T hi = covfie::utility::ipow<T>(b, (T)(e + 1));
            ok = ok && hi == (T)(b * r);
        }
        ok = ok && covfie::utility::ipow<T>(b, (T)0) == (T)1;
        std::printf("ipow<%d bit>(%llu,%llu) = %llu : %s\n", W, (unsigned long long)b, (unsigned long long)e, (unsigned long long)r, ok ? "ok" : "NOT b^e mod 2^W");
        bad |= !ok;
    }
    if (in.has("in_k") && in.has("in_n")) {
        unsigned k = in.get<unsigned>("in_k"), n = in.get<unsigned>("in_n");
        T r = covfie::utility::ipow<T>((T)((T)1 << k), (T)n);
        bool ok = r == (T)((T)1 << (k * n));
        std::printf("ipow(2^%u,%u) = %llu : %s\n", k, n, (unsigned long long)r, ok ? "ok" : "NOT 2^(k n)");
        bad |= !ok;
    }
    return bad ? 1 : 0;
}
