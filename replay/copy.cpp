// Native replay for the conversion bodies: builds a row-major field with the counterexample's extents (each capped
// at 8), converts it to the other storage order through the public converting constructor and compares every
// lattice value (and the reverse conversion).
#include <covfie/core/backend/primitive/array.hpp>
#include <covfie/core/backend/transformer/morton.hpp>
#include <covfie/core/backend/transformer/strided.hpp>
#include <covfie/core/field.hpp>
#include <covfie/core/utility/nd_map.hpp>
#include "replay_util.hpp"
#include <string>
using ovd = covfie::vector::vector_d<OUT_SCALAR_T, DIMS_OUT>;
using ivd = covfie::vector::vector_d<std::size_t, DIMS_IN>;
using arr_t = covfie::backend::array<ovd>;
using sfield = covfie::field<covfie::backend::strided<ivd, arr_t>>;
using mfield = covfie::field<covfie::backend::morton<ivd, arr_t>>;
int main(int argc, char ** argv)
{
    replay_inputs in(argc, argv);
    covfie::utility::nd_size<DIMS_IN> sizes;
    for (unsigned k = 0; k < DIMS_IN; ++k) {
        std::size_t s = in.has("in_sizes.m_data[" + std::to_string(k) + "]") ? in.get<std::size_t>("in_sizes.m_data[" + std::to_string(k) + "]") : 3;
        sizes[k] = s < 1 ? 1 : (s > 8 ? 8 : s);
    }
    sfield s(covfie::make_parameter_pack(sfield::backend_t::configuration_t(sizes)));
    {
        sfield::view_t sv(s);
        covfie::utility::nd_map<decltype(sizes)>([&](decltype(sizes) t) {
            std::size_t h = 1; for (unsigned k = 0; k < DIMS_IN; ++k) h = h * 31 + t[k];
            for (unsigned q = 0; q < DIMS_OUT; ++q) sv.at(t)[q] = (OUT_SCALAR_T)(h * 7 + q + 1);
        }, sizes);
    }
#if COPY_LAYER == 2
    mfield m(s);
    sfield back(m);
    mfield::view_t mv(m);
#else
    sfield m(s);
    sfield back(m);
    sfield::view_t mv(m);
#endif
    sfield::view_t sv(s), bv(back);
    int bad = 0;
    covfie::utility::nd_map<decltype(sizes)>([&](decltype(sizes) t) {
        for (unsigned q = 0; q < DIMS_OUT; ++q)
            if (mv.at(t)[q] != sv.at(t)[q] || bv.at(t)[q] != sv.at(t)[q]) ++bad;
    }, sizes);
    std::printf("extents (capped at 8):");
    for (unsigned k = 0; k < DIMS_IN; ++k) std::printf(" %zu", sizes[k]);
    std::printf("; components differing after conversion / round trip: %d\n", bad);
    return bad ? 1 : 0;
}
