// Native replay for allocation-size obligations of the curve layers: convert a row-major field with the
// counterexample's extents (each capped at 16) into the curve layout through the public converting constructor and
// compare the number of storage cells the real code allocated with the largest curve position of an in-range
// coordinate (C18: "more cells than the largest curve position").
#include <covfie/core/backend/primitive/array.hpp>
#include <covfie/core/backend/transformer/hilbert.hpp>
#include <covfie/core/backend/transformer/morton.hpp>
#include <covfie/core/backend/transformer/strided.hpp>
#include <covfie/core/field.hpp>
#include <covfie/core/utility/nd_map.hpp>
#include "replay_util.hpp"
#include <string>
using ivd = covfie::vector::vector_d<std::size_t, DIMS_IN>;
using arr_t = covfie::backend::array<covfie::vector::float1>;
using sfield = covfie::field<covfie::backend::strided<ivd, arr_t>>;
#ifdef HILBERT_K
using curve_t = covfie::backend::hilbert<ivd, arr_t>;
#else
using curve_t = covfie::backend::morton<ivd, arr_t>;
#endif
using cfield = covfie::field<curve_t>;
int main(int argc, char ** argv)
{
    replay_inputs in(argc, argv);
    covfie::utility::nd_size<DIMS_IN> sizes;
    for (unsigned k = 0; k < DIMS_IN; ++k) {
        std::size_t s = in.has("in_sizes.m_data[" + std::to_string(k) + "]") ? in.get<std::size_t>("in_sizes.m_data[" + std::to_string(k) + "]") : 3;
        sizes[k] = s < 1 ? 1 : (s > 16 ? 16 : s);
    }
    sfield s(covfie::make_parameter_pack(sfield::backend_t::configuration_t(sizes)));
    // largest curve position of an in-range coordinate, by the real index function
    std::size_t maxpos = 0;
    covfie::utility::nd_map<decltype(sizes)>([&](decltype(sizes) t) {
        typename curve_t::contravariant_input_t::vector_t c;
        for (unsigned k = 0; k < DIMS_IN; ++k) c[k] = t[k];
#ifdef HILBERT_K
        std::size_t p = curve_t::calculate_index(c, sizes);
#else
        std::size_t p = curve_t::calculate_index(c);
#endif
        if (p > maxpos) maxpos = p;
    }, sizes);
    // number of cells the converting constructor says the storage has (the copy itself may already overrun: run last)
    std::printf("extents (capped at 16):");
    for (unsigned k = 0; k < DIMS_IN; ++k) std::printf(" %zu", sizes[k]);
    std::fflush(stdout);
    cfield c(s);
    std::size_t cells = c.backend().get_backend().m_size;
    bool ok = cells > maxpos;
    std::printf("; storage cells = %zu, largest curve position = %zu : %s\n", cells, maxpos, ok ? "ok" : "STORAGE TOO SMALL");
    return ok ? 0 : 1;
}
