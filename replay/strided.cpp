// Native replay for the row-major unit: the real view's lookup over a probe storage backend that
// returns the flat position it is asked for.
#include <covfie/core/backend/primitive/identity.hpp>
#include <covfie/core/backend/transformer/strided.hpp>
#include <covfie/core/field.hpp>
#include "replay_util.hpp"
#include <string>
using in_vd = covfie::vector::vector_d<IN_SCALAR_T, DIMS_IN>;
// probe storage: identity over size1 returns the flat index handed to it (C14 observe_at)
using probe_t = covfie::backend::identity<covfie::vector::size1>;
using strided_t = covfie::backend::strided<in_vd, probe_t>;
int main(int argc, char ** argv)
{
    replay_inputs in(argc, argv);
    covfie::utility::nd_size<DIMS_IN> sizes;
    typename strided_t::contravariant_input_t::vector_t c;
    bool dom = true;
    for (unsigned k = 0; k < DIMS_IN; ++k) {
        sizes[k] = in.get<std::size_t>("in_self.m_sizes.m_data[" + std::to_string(k) + "]");
        c[k] = in.get<IN_SCALAR_T>("in_c.m_data[" + std::to_string(k) + "]");
        dom = dom && (std::size_t)c[k] < sizes[k];
    }
    if (!dom) { std::printf("coordinate outside the extents: outside the domain, skipped\n"); return 0; }
    typename strided_t::owning_data_t own(sizes, typename probe_t::owning_data_t{});
    typename strided_t::non_owning_data_t view(own);
    std::size_t got = view.at(c)[0];
    // sum_k c_k * prod_{l>k} N_l in the coordinate scalar type
    IN_SCALAR_T spec = 0;
    for (unsigned k = 0; k < DIMS_IN; ++k) {
        IN_SCALAR_T t = c[k];
        for (unsigned l = k + 1; l < DIMS_IN; ++l) t = (IN_SCALAR_T)(t * (IN_SCALAR_T)sizes[l]);
        spec = (IN_SCALAR_T)(spec + t);
    }
    bool ok = got == (std::size_t)spec;
    std::printf("flat position handed to the storage = %zu, row-major position = %zu : %s\n", got, (std::size_t)spec, ok ? "ok" : "MISMATCH");
    return ok ? 0 : 1;
}
