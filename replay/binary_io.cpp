// Native replay for binary_io.hpp: builds a std::stringstream with exactly the bytes that were still available
// in the counterexample stream and calls the real reader.  C08: it must throw iff the stream is short or the
// words differ; it must never abort, crash, or return a value made of indeterminate bytes.
#include <covfie/core/utility/binary_io.hpp>
#include "replay_util.hpp"
#include <sstream>
#include <string>
template <typename T>
int run_read(std::size_t avail, const std::string & bytes)
{
    std::stringstream ss(bytes.substr(0, avail));
    bool thrown = false;
    T v{};
    try { v = covfie::utility::read_binary<T>(ss); } catch (const std::exception & e) { thrown = true; std::printf("threw: %s\n", e.what()); }
    bool expect_throw = avail < sizeof(T);
    std::printf("read_binary<%zu bytes> with %zu bytes available: %s, expected %s\n", sizeof(T), avail, thrown ? "threw" : "returned", expect_throw ? "throw" : "return");
    if (thrown != expect_throw) return 1;
    if (!thrown && std::memcmp(&v, bytes.data(), sizeof(T)) != 0) { std::printf("value differs from the bytes read\n"); return 1; }
    return 0;
}
int main(int argc, char ** argv)
{
    replay_inputs in(argc, argv);
    std::size_t len = in.get<std::size_t>("in_fs.len"), pos = in.get<std::size_t>("in_fs.pos");
    std::size_t avail = len - pos;
    if (avail > 64) avail = 64;
    std::string bytes(64, '\0');
    auto put32 = [&](std::size_t off, uint32_t w) { std::memcpy(&bytes[off], &w, 4); };
    if (in.has("hdr1")) put32(0, in.get<uint32_t>("hdr1"));
    if (in.has("hdr2")) put32(4, in.get<uint32_t>("hdr2"));
    if (in.has("ftr1")) put32(0, in.get<uint32_t>("ftr1"));
    if (in.has("ftr2")) put32(4, in.get<uint32_t>("ftr2"));
    if (in.has("rv")) { uint64_t b = in.bits("rv"); std::memcpy(&bytes[0], &b, 8); }
#if VERIF_REPLAY_FN == 0
    return run_read<uint32_t>(avail, bytes);
#elif VERIF_REPLAY_FN == 1
    return run_read<uint64_t>(avail, bytes);
#elif VERIF_REPLAY_FN == 2
    return run_read<float>(avail, bytes);
#elif VERIF_REPLAY_FN == 3
    return run_read<double>(avail, bytes);
#else
    uint32_t tag = in.has("in_hdr") ? in.get<uint32_t>("in_hdr") : in.get<uint32_t>("in_ftr");
    std::stringstream ss(bytes.substr(0, avail));
    bool thrown = false;
    try {
#if VERIF_REPLAY_FN == 10
        covfie::utility::read_io_header(ss, tag);
#else
        covfie::utility::read_io_footer(ss, tag);
#endif
    } catch (const std::exception & e) { thrown = true; std::printf("threw: %s\n", e.what()); }
    uint32_t w0, w1;
    std::memcpy(&w0, &bytes[0], 4); std::memcpy(&w1, &bytes[4], 4);
#if VERIF_REPLAY_FN == 10
    bool ok_words = avail >= 8 && w0 == 0xC04F1EABu && w1 == tag;
#else
    bool ok_words = avail >= 8 && w0 == 0xC04F1E70u && w1 == (uint32_t)(tag + 0x20000000u);
#endif
    std::printf("%zu bytes available, words %08X %08X, tag %08X: %s, expected %s\n", avail, w0, w1, tag, thrown ? "threw" : "returned", ok_words ? "return" : "throw");
    return thrown == !ok_words ? 0 : 1;
#endif
}
