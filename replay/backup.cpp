// Native replay for the backup unit: backup over a probe backend that counts the queries it receives.
#include <covfie/core/backend/transformer/backup.hpp>
#include <covfie/core/concepts.hpp>
#include <covfie/core/parameter_pack.hpp>
#include "replay_util.hpp"
#include <string>
#include <variant>
#include "probe_backend.hpp"
using ivd = covfie::vector::vector_d<IN_SCALAR_T, DIMS_IN>;
using ovd = covfie::vector::vector_d<OUT_SCALAR_T, DIMS_OUT>;
using probe = probe_backend<ivd, ovd>;
static covfie::array::array<OUT_SCALAR_T, DIMS_OUT> g_value;
static probe::out_t value_fn(probe::in_t) { return g_value; }
using backup_t = covfie::backend::backup<probe>;
int main(int argc, char ** argv)
{
    replay_inputs in(argc, argv);
    typename backup_t::configuration_t conf;
    typename backup_t::contravariant_input_t::vector_t c;
    bool outside = false;
    for (unsigned k = 0; k < DIMS_IN; ++k) {
        conf.min[k] = in.get<IN_SCALAR_T>("in_self.m_min.m_data[" + std::to_string(k) + "]");
        conf.max[k] = in.get<IN_SCALAR_T>("in_self.m_max.m_data[" + std::to_string(k) + "]");
        c[k] = in.get<IN_SCALAR_T>("in_c.m_data[" + std::to_string(k) + "]");
        if (c[k] != c[k] || conf.min[k] != conf.min[k] || conf.max[k] != conf.max[k]) { std::printf("NaN: outside the domain\n"); return 0; }
        outside = outside || c[k] < conf.min[k] || c[k] > conf.max[k];
    }
    for (unsigned k = 0; k < DIMS_OUT; ++k) {
        conf.default_value[k] = in.get<OUT_SCALAR_T>("in_self.m_default.m_data[" + std::to_string(k) + "]");
        g_value[k] = in.get<OUT_SCALAR_T>("verif_b_result.m_data[" + std::to_string(k) + "]");
        if (!in.has("verif_b_result.m_data[" + std::to_string(k) + "]")) g_value[k] = (OUT_SCALAR_T)(1000 + k);
    }
    probe::value = value_fn;
    typename backup_t::owning_data_t own(conf, probe::owning_data_t{});
    typename backup_t::non_owning_data_t view(own);
    auto r = view.at(c);
    bool ok = true;
    if (outside) {
        ok = probe::queries.size() == 0;
        for (unsigned k = 0; k < DIMS_OUT; ++k) ok = ok && std::memcmp(&r[k], &conf.default_value[k], sizeof(OUT_SCALAR_T)) == 0;
    } else {
        ok = probe::queries.size() == 1;
        for (unsigned k = 0; k < DIMS_IN; ++k) ok = ok && std::memcmp(&probe::queries[0][k], &c[k], sizeof(IN_SCALAR_T)) == 0;
        for (unsigned k = 0; k < DIMS_OUT; ++k) ok = ok && std::memcmp(&r[k], &g_value[k], sizeof(OUT_SCALAR_T)) == 0;
    }
    std::printf("coordinate %s the box; backend queries = %d : %s\n", outside ? "outside" : "inside", (int)probe::queries.size(), ok ? "ok" : "VIOLATES C11");
    return ok ? 0 : 1;
}
