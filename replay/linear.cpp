// Native replay for the linear layer over the probe backend: neighbour set, lattice exactness, and the
// N-linear interpolant evaluated in long double for comparison.
#include <covfie/core/backend/transformer/linear.hpp>
#include "probe_backend.hpp"
#include "replay_util.hpp"
#include <cmath>
#include <string>
using ivd = covfie::vector::vector_d<B_IN_SCALAR_T, DIMS_IN>;
using ovd = covfie::vector::vector_d<OUT_SCALAR_T, DIMS_OUT>;
using cvd = covfie::vector::vector_d<IN_SCALAR_T, DIMS_IN>;
using probe = probe_backend<ivd, ovd>;
static probe::in_t g_base;
static OUT_SCALAR_T g_table[1u << DIMS_IN][DIMS_OUT];
static bool g_outside = false;
static probe::out_t value_fn(probe::in_t x)
{
    unsigned bits = 0;
    for (unsigned k = 0; k < DIMS_IN; ++k) {
        if (x[k] == g_base[k] + 1) bits |= 1u << k;
        else if (x[k] != g_base[k]) g_outside = true;
    }
    probe::out_t r;
    for (unsigned q = 0; q < DIMS_OUT; ++q) r[q] = g_table[bits][q];
    return r;
}
int main(int argc, char ** argv)
{
    replay_inputs in(argc, argv);
    using L = covfie::backend::linear<probe, cvd>;
    typename L::contravariant_input_t::vector_t c;
    long double f[DIMS_IN];
    bool lattice = true;
    for (unsigned k = 0; k < DIMS_IN; ++k) {
        c[k] = in.get<IN_SCALAR_T>("in_c.m_data[" + std::to_string(k) + "]");
        if (!(c[k] >= 0 && c[k] <= (IN_SCALAR_T)8388607.0)) { std::printf("outside the domain\n"); return 0; }
        g_base[k] = (B_IN_SCALAR_T)c[k];
        f[k] = (long double)c[k] - (long double)g_base[k];
        lattice = lattice && f[k] == 0;
    }
    for (unsigned n = 0; n < (1u << DIMS_IN); ++n)
        for (unsigned q = 0; q < DIMS_OUT; ++q) {
            std::string nm = "verif_b_table[" + std::to_string(n) + "].m_data[" + std::to_string(q) + "]";
            g_table[n][q] = in.has(nm) ? in.get<OUT_SCALAR_T>(nm) : (OUT_SCALAR_T)(1 + n * DIMS_OUT + q);
        }
    probe::value = value_fn;
    typename L::owning_data_t own(typename L::configuration_t{}, probe::owning_data_t{});
    typename L::non_owning_data_t view(own);
    auto r = view.at(c);
    int bad = 0;
    unsigned hits[1u << DIMS_IN] = {0};
    for (auto & q : probe::queries) { unsigned bits = 0; for (unsigned k = 0; k < DIMS_IN; ++k) if (q[k] == g_base[k] + 1) bits |= 1u << k; hits[bits]++; }
    bool set_ok = !g_outside && probe::queries.size() >= (1u << DIMS_IN);
    for (unsigned n = 0; n < (1u << DIMS_IN); ++n) set_ok = set_ok && hits[n] >= 1;
    std::printf("backend queries: %zu (expected %u), all inside the surrounding cell: %s, each neighbour queried: %s\n", probe::queries.size(), 1u << DIMS_IN,
                g_outside ? "NO" : "yes", set_ok ? "yes" : "NO");
    bad |= !set_ok;
    for (unsigned q = 0; q < DIMS_OUT; ++q) {
        long double ref = 0;
        for (unsigned n = 0; n < (1u << DIMS_IN); ++n) {
            long double w = 1;
            for (unsigned k = 0; k < DIMS_IN; ++k) w *= ((n >> k) & 1) ? f[k] : 1 - f[k];
            ref += w * (long double)g_table[n][q];
        }
        long double err = fabsl((long double)r[q] - ref), scale = 0;
        for (unsigned n = 0; n < (1u << DIMS_IN); ++n) scale = fmaxl(scale, fabsl((long double)g_table[n][q]));
        bool ok = lattice ? ((IN_SCALAR_T)r[q] == (IN_SCALAR_T)g_table[0][q]) : err <= 64 * (sizeof(IN_SCALAR_T) == 4 ? 1.2e-7L : 2.3e-16L) * scale + 1e-300L;
        std::printf("output %u: %.17Lg, N-linear interpolant %.17Lg : %s\n", q, (long double)r[q], ref, ok ? "ok" : "DIFFERS");
        bad |= !ok;
    }
    return bad ? 1 : 0;
}
