// Helpers for native replay programs: inputs arrive as name=<binary digits> (bit patterns).
#pragma once
#include <cstdint>
#include <cstdio>
#include <cstdlib>
#include <cstring>
#include <map>
#include <string>

struct replay_inputs {
    std::map<std::string, std::string> m;
    replay_inputs(int argc, char ** argv)
    {
        for (int i = 1; i < argc; ++i) {
            const char * eq = std::strchr(argv[i], '=');
            if (eq) m[std::string(argv[i], eq - argv[i])] = std::string(eq + 1);
        }
    }
    bool has(const std::string & k) const { return m.count(k) > 0; }
    uint64_t bits(const std::string & k) const
    {
        auto it = m.find(k);
        if (it == m.end()) {
            std::printf("replay: input %s missing, using 0\n", k.c_str());
            return 0;
        }
        uint64_t v = 0;
        for (char c : it->second) v = (v << 1) | (c == '1');
        return v;
    }
    template <typename T>
    T get(const std::string & k) const
    {
        uint64_t b = bits(k);
        T t;
        std::memcpy(&t, &b, sizeof(T));  // little-endian host
        return t;
    }
};
