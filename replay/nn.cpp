// Native replay for the nearest-neighbour unit: nearest_neighbour<identity> returns the chosen lattice point.
#include <covfie/core/backend/primitive/identity.hpp>
#include <covfie/core/backend/transformer/nearest_neighbour.hpp>
#include "replay_util.hpp"
#include <string>
using ivd = covfie::vector::vector_d<B_IN_SCALAR_T, DIMS_IN>;
using cvd = covfie::vector::vector_d<IN_SCALAR_T, DIMS_IN>;
using ident_t = covfie::backend::identity<ivd>;
using nn_t = covfie::backend::nearest_neighbour<ident_t, cvd>;
int main(int argc, char ** argv)
{
    replay_inputs in(argc, argv);
    typename nn_t::contravariant_input_t::vector_t c;
    for (unsigned k = 0; k < DIMS_IN; ++k) {
        c[k] = in.get<IN_SCALAR_T>("in_c.m_data[" + std::to_string(k) + "]");
        if (!(c[k] >= (IN_SCALAR_T)(NN_LO) && c[k] <= (IN_SCALAR_T)(NN_HI))) { std::printf("outside the domain\n"); return 0; }
    }
    typename nn_t::owning_data_t own(typename nn_t::configuration_t{}, typename ident_t::owning_data_t{});
    typename nn_t::non_owning_data_t view(own);
    auto r = view.at(c);
    int bad = 0;
    for (unsigned k = 0; k < DIMS_IN; ++k) {
        long double d = (long double)r[k] - (long double)c[k];
        bool ok = d <= 0.5L && d >= -0.5L;
        std::printf("component %u: coordinate %.20Lg -> lattice point %.20Lg, distance %.20Lg : %s\n", k, (long double)c[k], (long double)r[k], d,
                    ok ? "ok" : "FARTHER THAN ONE HALF");
        bad |= !ok;
    }
    return bad;
}
