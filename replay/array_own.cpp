// Native replay for the array backend's ownership operations: the real owning_data_t against a plain
// std::vector model.  Sizes from the counterexample are capped at 4096 elements (stated in the output).
#include <covfie/core/backend/primitive/array.hpp>
#include "replay_util.hpp"
#include <vector>
using ovd = covfie::vector::vector_d<OUT_SCALAR_T, DIMS_OUT>;
using arr_t = covfie::backend::array<ovd>;
using own_t = arr_t::owning_data_t;
static std::size_t cap(std::size_t n) { return n > 4096 ? 4096 : n; }
static void fill(own_t & d, OUT_SCALAR_T base) { for (std::size_t i = 0; i < d.m_size; ++i) for (unsigned j = 0; j < DIMS_OUT; ++j) d.m_ptr[i][j] = base + (OUT_SCALAR_T)(i * DIMS_OUT + j); }
static bool same(const own_t & d, std::size_t n, OUT_SCALAR_T base)
{
    if (d.m_size != n) return false;
    for (std::size_t i = 0; i < n; ++i) for (unsigned j = 0; j < DIMS_OUT; ++j) if (d.m_ptr[i][j] != base + (OUT_SCALAR_T)(i * DIMS_OUT + j)) return false;
    return true;
}
int main(int argc, char ** argv)
{
    replay_inputs in(argc, argv);
    std::size_t na = cap(in.has("in_a.m_size") ? in.get<std::size_t>("in_a.m_size") : 3);
    std::size_t nb = cap(in.has("in_b.m_size") ? in.get<std::size_t>("in_b.m_size") : na);
    if (na == 0 && nb == 0) { na = 3; nb = 2; }
    int bad = 0;
    std::printf("sizes (capped at 4096): a=%zu b=%zu\n", na, nb);
    {   // a = b, distinct objects
        own_t a(na), b(nb);
        fill(a, 1000); fill(b, 5);
        own_t * r = &(a = b);
        bool ok = r == &a && same(a, nb, 5) && same(b, nb, 5) && (nb == 0 || a.m_ptr.get() != b.m_ptr.get());
        if (ok && nb > 0) { a.m_ptr[0][0] = -1; ok = b.m_ptr[0][0] == 5; }
        std::printf("a = b: returns *this: %s, values/independence: %s\n", r == &a ? "yes" : "NO", ok ? "ok" : "VIOLATED");
        bad |= !ok;
    }
    {   // a moved-from, then a = b (the defaulted move leaves a.m_size unchanged and a.m_ptr null)
        own_t a(na == 0 ? 4 : na), b(nb == 0 ? 2 : nb);
        std::size_t n = b.m_size;
        fill(a, 1000); fill(b, 5);
        own_t sink(std::move(a));
        a = b;
        bool ok = same(a, n, 5) && same(b, n, 5);
        std::printf("moved-from a, then a = b: %s\n", ok ? "ok" : "VIOLATED");
        bad |= !ok;
    }
    {   // a = a
        own_t a(na == 0 ? 3 : na);
        std::size_t n = a.m_size;
        fill(a, 7);
        own_t & alias = a;
        a = alias;
        bool ok = same(a, n, 7);
        std::printf("a = a: values preserved: %s\n", ok ? "ok" : "VIOLATED (self-assignment destroys the data)");
        bad |= !ok;
    }
    {   // copy construction
        own_t b(nb == 0 ? 2 : nb);
        std::size_t n = b.m_size;
        fill(b, 9);
        own_t a(b);
        bool ok = same(a, n, 9) && same(b, n, 9) && a.m_ptr.get() != b.m_ptr.get();
        std::printf("copy construction: %s\n", ok ? "ok" : "VIOLATED");
        bad |= !ok;
    }
    return bad ? 1 : 0;
}
