// Native replay for the one-line layers of C02 over the probe backend.
#include <covfie/core/backend/primitive/constant.hpp>
#include <covfie/core/backend/primitive/identity.hpp>
#include <covfie/core/backend/transformer/covariant_cast.hpp>
#include <covfie/core/backend/transformer/dereference.hpp>
#include <covfie/core/backend/transformer/shuffle.hpp>
#include "probe_backend.hpp"
#include "replay_util.hpp"
#include <string>
using ivd = covfie::vector::vector_d<IN_SCALAR_T, DIMS_IN>;
using ovd = covfie::vector::vector_d<OUT_SCALAR_T, DIMS_OUT>;
using probe = probe_backend<ivd, ovd>;
static probe::out_t g_value;
static probe::out_t value_fn(probe::in_t) { return g_value; }
template <typename A, typename B> static bool biteq(const A & a, const B & b) { return sizeof(a) == sizeof(b) && std::memcmp(&a, &b, sizeof(a)) == 0; }
int main(int argc, char ** argv)
{
    replay_inputs in(argc, argv);
    probe::in_t c;
    for (unsigned k = 0; k < DIMS_IN; ++k) c[k] = in.get<IN_SCALAR_T>("in_c.m_data[" + std::to_string(k) + "]");
    for (unsigned k = 0; k < DIMS_OUT; ++k)
        g_value[k] = in.has("verif_b_result.m_data[" + std::to_string(k) + "]") ? in.get<OUT_SCALAR_T>("verif_b_result.m_data[" + std::to_string(k) + "]") : (OUT_SCALAR_T)(10 + k);
    probe::value = value_fn;
    bool ok = true;
#if defined(UNIT_SHUFFLE)
    static const unsigned perm[DIMS_IN] = VERIF_PERM;
    using seq = std::index_sequence<VERIF_PERM_LIST>;
    using L = covfie::backend::shuffle<probe, seq>;
    typename L::owning_data_t own(typename L::configuration_t{}, probe::owning_data_t{});
    typename L::non_owning_data_t view(own);
    auto r = view.at(c);
    ok = probe::queries.size() == 1;
    for (unsigned k = 0; ok && k < DIMS_IN; ++k) ok = biteq(probe::queries[0][k], c[perm[k]]);
    for (unsigned k = 0; ok && k < DIMS_OUT; ++k) ok = biteq(r[k], g_value[k]);
    std::printf("shuffle: backend queried %zu time(s); %s\n", probe::queries.size(), ok ? "ok" : "NOT the permuted coordinate / value");
#elif defined(UNIT_CAST)
    using L = covfie::backend::covariant_cast<CAST_T, probe>;
    typename L::owning_data_t own(typename L::configuration_t{}, probe::owning_data_t{});
    typename L::non_owning_data_t view(own);
    auto r = view.at(c);
    ok = probe::queries.size() >= 1;
    for (auto & q : probe::queries) for (unsigned k = 0; k < DIMS_IN; ++k) ok = ok && biteq(q[k], c[k]);
    for (unsigned k = 0; k < DIMS_OUT; ++k) {
        CAST_T e = (CAST_T)g_value[k];
        bool okk = biteq(r[k], e);
        std::printf("component %u: %.17g, expected (target_type)%.17g = %.17g : %s\n", k, (double)r[k], (double)g_value[k], (double)e, okk ? "ok" : "MISMATCH");
        ok = ok && okk;
    }
#elif defined(UNIT_DEREF)
    using L = covfie::backend::dereference<probe>;
    typename L::owning_data_t own(typename L::configuration_t{}, probe::owning_data_t{});
    typename L::non_owning_data_t view(own);
    auto r = view.at(c);
    ok = probe::queries.size() == 1;
    for (unsigned k = 0; ok && k < DIMS_IN; ++k) ok = biteq(probe::queries[0][k], c[k]);
    for (unsigned k = 0; ok && k < DIMS_OUT; ++k) ok = biteq(r[k], g_value[k]);
    std::printf("dereference: %s\n", ok ? "ok" : "VIOLATED");
#elif defined(UNIT_CONSTANT)
    using L = covfie::backend::constant<ivd, ovd>;
    typename L::configuration_t v;
    for (unsigned k = 0; k < DIMS_OUT; ++k) v[k] = in.get<OUT_SCALAR_T>("in_self.m_value.m_data[" + std::to_string(k) + "]");
    typename L::owning_data_t own(v);
    typename L::non_owning_data_t view(own);
    auto r = view.at(c);
    for (unsigned k = 0; k < DIMS_OUT; ++k) ok = ok && biteq(r[k], v[k]);
    std::printf("constant: %s\n", ok ? "ok" : "VIOLATED");
#elif defined(UNIT_IDENTITY)
    using L = covfie::backend::identity<ivd>;
    typename L::owning_data_t own;
    typename L::non_owning_data_t view(own);
    auto r = view.at(c);
    for (unsigned k = 0; k < DIMS_IN; ++k) ok = ok && biteq(r[k], c[k]);
    std::printf("identity: %s\n", ok ? "ok" : "VIOLATED");
#endif
    return ok ? 0 : 1;
}
