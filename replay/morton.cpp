// Native replay for the Morton unit: the real static index function vs the bit-interleave of C14,
// and the real allocation-size expression vs the largest position.
#include <covfie/core/backend/primitive/array.hpp>
#include <covfie/core/backend/transformer/morton.hpp>
#include "replay_util.hpp"
#include <string>

using in_vd = covfie::vector::vector_d<IN_SCALAR_T, DIMS_IN>;
using morton_t = covfie::backend::morton<in_vd, covfie::backend::array<covfie::vector::float1>, (VERIF_USE_BMI2 != 0)>;

int main(int argc, char ** argv)
{
    replay_inputs in(argc, argv);
#ifdef HAVE_BMI2
    if (!__builtin_cpu_supports("bmi2")) {
        std::printf("this CPU has no BMI2: the pdep variant cannot be replayed natively\n");
        return 0;
    }
#endif
    int bad = 0;
    for (const char * nm : {"in_c", "in_c1", "in_c2"}) {
        if (!in.has(std::string(nm) + ".m_data[0]")) continue;
        typename morton_t::contravariant_input_t::vector_t c;
        bool dom = true;
        const unsigned bits = 64 / DIMS_IN;
        for (unsigned k = 0; k < DIMS_IN; ++k) {
            c[k] = in.get<IN_SCALAR_T>(std::string(nm) + ".m_data[" + std::to_string(k) + "]");
            dom = dom && c[k] >= 0 && (bits >= 64 || (uint64_t)c[k] < (1ull << (bits % 64)));
        }
        if (!dom) { std::printf("%s outside the domain (coordinate >= 2^%u): skipped\n", nm, bits); continue; }
        uint64_t r = morton_t::calculate_index(c);
        uint64_t spec = 0;
        for (unsigned q = 0; q < DIMS_IN * bits; ++q)
            spec |= (((uint64_t)c[q % DIMS_IN] >> (q / DIMS_IN)) & 1ull) << q;
        std::printf("%s: calculate_index = 0x%016llx, bit-interleave (first coordinate least significant) = 0x%016llx : %s\n",
                    nm, (unsigned long long)r, (unsigned long long)spec, r == spec ? "ok" : "MISMATCH");
        bad |= (r != spec);
    }
    if (in.has("in_sizes.m_data[0]")) {
        covfie::utility::nd_size<DIMS_IN> sizes;
        for (unsigned k = 0; k < DIMS_IN; ++k) sizes[k] = in.get<std::size_t>("in_sizes.m_data[" + std::to_string(k) + "]");
        std::size_t mx = *std::max_element(sizes.begin(), sizes.end());
        std::size_t alloc = covfie::utility::ipow(covfie::utility::round_pow2(mx), (std::size_t)DIMS_IN);
        // largest position of an in-range coordinate is attained at c = sizes - 1 componentwise OR-wise; check it and the given c
        typename morton_t::contravariant_input_t::vector_t c;
        for (unsigned k = 0; k < DIMS_IN; ++k) c[k] = (IN_SCALAR_T)(sizes[k] - 1);
        uint64_t r = morton_t::calculate_index(c);
        std::printf("alloc(ipow(round_pow2(%zu),%d)) = %zu, position of (sizes-1) = %llu : %s\n", mx, DIMS_IN, alloc,
                    (unsigned long long)r, r < alloc ? "ok" : "POSITION >= ALLOCATED CELLS");
        bad |= !(r < alloc);
    }
    return bad ? 1 : 0;
}
