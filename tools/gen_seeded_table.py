#!/usr/bin/env python3
"""Rewrites the block between <!-- SEEDED-TABLE-BEGIN --> and <!-- SEEDED-TABLE-END --> in DESIGN.md from
seeded/<id>/meta.json and seeded/results.json (the last results of tools/seeded_run_all.py)."""
import glob
import json
import os
import re

ROOT = os.path.dirname(os.path.dirname(os.path.abspath(__file__)))
res = json.load(open(os.path.join(ROOT, "seeded", "results.json")))


def outcome(sid, r, negative):
    if not r:
        return "not run"
    caught, replayed, und, quiet = [], [], [], []
    for p, v in r.items():
        if v["exit"] == 1:
            caught.append(p)
            if v.get("replayed_on_real_code"):
                replayed.append(p)
        elif v["exit"] == 2:
            und.append(p)
        else:
            quiet.append(p)
    parts = []
    if negative:
        if caught:
            parts.append("**FALSE ALARM** by " + ", ".join(caught))
        if quiet:
            parts.append("exit 0: " + ", ".join(quiet))
        if und:
            parts.append("exit 2 (extractor cannot read the new text; undecided, no alarm): " + ", ".join(und))
        return "; ".join(parts)
    if caught:
        s = "caught by " + ", ".join(caught)
        if replayed:
            s += " (counterexample replayed on the real code: " + ", ".join(replayed) + ")"
        else:
            s += " (no-failing-input-found)"
        parts.append(s)
    if und:
        parts.append("UNDECIDED (exit 2): " + ", ".join(und))
    if quiet:
        parts.append("not seen by " + ", ".join(quiet))
    return "; ".join(parts)


rows_s, rows_n = [], []
for d in sorted(glob.glob(os.path.join(ROOT, "seeded", "[SN][0-9]*"))):
    sid = os.path.basename(d)
    mp = os.path.join(d, "meta.json")
    meta = json.load(open(mp)) if os.path.exists(mp) else {}
    r = res.get(sid)
    if sid.startswith("S"):
        rows_s.append("| %s | %s | %s | %s |" % (sid, ",".join(meta.get("breaks", [])),
                                               (meta.get("needs_to_manifest", "") or "")[:130].replace("|", "/"), outcome(sid, r, False)))
    else:
        rows_n.append("| %s | %s | %s |" % (sid, (meta.get("what", "") or "")[:170].replace("|", "/"), outcome(sid, r, True)))

ndet = sum(1 for l in rows_s if "caught by" in l)
block = ["<!-- SEEDED-TABLE-BEGIN -->",
         "Breaking changes (%d; %d caught by at least one check, the rest listed as undecided/not seen):" % (len(rows_s), ndet), "",
         "| seeded change | breaks | needs to manifest | outcome of the checks |", "|---|---|---|---|"] + rows_s + [
         "", "Harmless refactorings (%d; none may raise an alarm):" % len(rows_n), "",
         "| change | what it does | outcome of the checks |", "|---|---|---|"] + rows_n + ["<!-- SEEDED-TABLE-END -->"]
p = os.path.join(ROOT, "DESIGN.md")
s = open(p).read()
if "<!-- SEEDED-TABLE-BEGIN -->" not in s:
    raise SystemExit("markers missing in DESIGN.md")
s = re.sub(r"<!-- SEEDED-TABLE-BEGIN -->.*?<!-- SEEDED-TABLE-END -->", lambda m: "\n".join(block), s, flags=re.S)
open(p, "w").write(s)
print("table: %d breaking, %d harmless" % (len(rows_s), len(rows_n)))
