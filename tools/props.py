#!/usr/bin/env python3
"""Property registry: cells (instantiation matrix), trusted base, assumptions."""
import os
import subprocess

import extract
from cbmc_run import Cell

HERE = os.path.dirname(os.path.abspath(__file__))
VERIF = os.path.dirname(HERE)

GLOBAL_TRUSTED = [
    "cbmc 6.11.0: goto-cc C front end, goto-instrument --dfcc contract instrumentation, SAT (minisat/cadical) and SMT (cvc5 1.0, z3 4.8.12) back ends",
    "extraction rules R1-R19 of DESIGN.md section 4.2 preserve meaning; C and C++ agree on the arithmetic conversions of the scalar types bound in each cell",
    "g++ 12.2 evaluates the constexpr constants fed to the units",
]
GLOBAL_ASSUMPTIONS = [
    "little-endian x86-64 host, sizeof(size_t) == 8, default floating-point environment (round to nearest)",
    "not extracted and therefore unverified: constructors and defaulted special members, field_view forwarding, nd_map, parameter packs, concepts, all CUDA code",
]

PROPS = {}

WIDTHS = [(8, "uint8_t"), (16, "uint16_t"), (32, "uint32_t"), (64, "uint64_t")]


def eval_consts(scratch):
    """Compile a small C++ program against the real headers and read constants."""
    src = os.path.join(VERIF, "tools", "consts.cpp")
    exe = os.path.join(scratch, "consts")
    cmd = ["g++", "-std=c++20", "-w", "-mbmi2", "-I", os.path.join(extract.REPO, "lib/core"), src, "-o", exe]
    p = subprocess.run(cmd, capture_output=True, text=True)
    if p.returncode != 0:
        raise extract.ExtractionError("consts.cpp does not compile against /repo: " + p.stderr[-1500:])
    q = subprocess.run([exe], capture_output=True, text=True, timeout=20)
    if q.returncode != 0:
        raise extract.ExtractionError("consts program failed")
    consts = {}
    lines = []
    for line in q.stdout.splitlines():
        k, v = line.split("=", 1)
        consts[k.strip()] = v.strip()
        lines.append("#define %s %s" % (k.strip(), v.strip()))
    return consts, "/* constants evaluated by g++ from the real headers */\n" + "\n".join(lines) + "\n"


SCALARS3 = [("size_t", "size_t"), ("unsigned", "unsigned"), ("int", "int")]
MORTON_VARIANTS = [("portable", {"VERIF_USE_BMI2": 1}),                     # no HAVE_BMI2: #else branch
                   ("bmi2off", {"HAVE_BMI2": 1, "VERIF_USE_BMI2": 0}),      # HAVE_BMI2 && !use_bmi2
                   ("pdep", {"HAVE_BMI2": 1, "VERIF_USE_BMI2": 1})]         # pdep fold


def morton_cells(tier, parts):
    cells = []
    for n in (1, 2, 3, 4):
        un = "morton@N=%d" % n
        for sname, sty in SCALARS3:
            base = {"DIMS_IN": n, "IN_SCALAR_T": sty}
            if "index" in parts:
                for vname, vdef in MORTON_VARIANTS:
                    d = dict(base); d.update(vdef)
                    cells.append(Cell("morton.index.%s.N%d.%s" % (vname, n, sname), un, "h_morton_index", defines=d,
                                      enforce="morton_calculate_index",
                                      replace=["morton_pdep_compute"] if vname == "pdep" else [],
                                      unwind=65, extra_checks=["--conversion-check"] if sname != "int" else [],
                                      closes_loops="unwinding to the constant bounds 64/N and N (complete)",
                                      replay="morton"))
                d = dict(base); d.update({"HAVE_BMI2": 1, "VERIF_USE_BMI2": 1})
                cells.append(Cell("morton.pdep.N%d.%s" % (n, sname), un, "h_morton_pdep", defines=d,
                                  enforce="morton_pdep_compute", unwind=65,
                                  closes_loops="_pdep_u64 stub loop: unwinding to 64 (complete)", replay="morton"))
            if "at" in parts:
                for fl in ("debug", "ndebug"):
                    cells.append(Cell("morton.at.N%d.%s.%s" % (n, sname, fl), un, "h_morton_at", defines=dict(base, VERIF_USE_BMI2=1),
                                      enforce="morton_at", replace=["morton_calculate_index"], flavour=fl, unwind=5,
                                      closes_loops="debug assertion loop: unwinding to N (complete)", replay="morton"))
            if "sizing" in parts:
                cells.append(Cell("morton.sizing.N%d.%s" % (n, sname), un, "h_morton_sizing", defines=dict(base, VERIF_USE_BMI2=1),
                                  replace=["morton_calculate_index", "morton_alloc_size_ctor"], unwind=5,
                                  closes_loops="harness loops over N (complete)", replay="morton"))
            if "compose" in parts:
                cells.append(Cell("morton.array_compose.N%d.%s" % (n, sname), un, "h_morton_array_compose", defines=dict(base, VERIF_USE_BMI2=1, DIMS_OUT=3, OUT_SCALAR_T="float"),
                                  replace=["morton_calculate_index", "array_at"], unwind=5, backends=(("sat", 600), ("cadical", 600)),
                                  closes_loops="harness loops over N (complete)", note="composition of the layer's index contract with the array backend's lookup contract; storage size symbolic up to 2^40 elements"))
            if "monotone" in parts:
                cells.append(Cell("morton.monotone.N%d.%s" % (n, sname), un, "h_morton_monotone", defines=dict(base, VERIF_USE_BMI2=1),
                                  replace=["morton_calculate_index"], unwind=5, backends=(("sat", 300), ("cadical", 300)),
                                  closes_loops="harness loops over N (complete)", replay="morton"))
            if "injective" in parts:
                cells.append(Cell("morton.injective.N%d.%s" % (n, sname), un, "h_morton_injective", defines=dict(base, VERIF_USE_BMI2=1),
                                  replace=["morton_calculate_index"], unwind=5,
                                  closes_loops="harness loops over N (complete)", replay="morton"))
        if "alloc" in parts:
            for which in ("copy", "ctor"):
                cells.append(Cell("morton.alloc.%s.N%d" % (which, n), un, "h_morton_alloc_%s" % which,
                                  defines={"DIMS_IN": n, "IN_SCALAR_T": "size_t", "VERIF_USE_BMI2": 1},
                                  enforce="morton_alloc_size_%s" % which, replace=["round_pow2", "ipow", "morton_calculate_index"], unwind=66,
                                  extra_checks=["--unsigned-overflow-check"],
                                  closes_loops="max_element stub loop over N (complete)", replay="alloc"))
    return cells


def strided_cells(tier, parts):
    cells = []
    for n in (1, 2, 3, 4):
        if "formula" in parts:
            for sname, sty in (("size_t", "size_t"), ("unsigned", "unsigned")):
                for fl in ("debug", "ndebug"):
                    cells.append(Cell("strided.formula.N%d.%s.%s" % (n, sname, fl), "strided", "h_strided_at",
                                      defines={"DIMS_IN": n, "IN_SCALAR_T": sty, "VERIF_B_NODOMAIN": 1}, flavour=fl,
                                      enforce="strided_at", unwind=5, backends=(("cvc5", 120), ("sat", 60)),
                                      closes_loops="unwinding to the template constant N (complete)",
                                      note="ring identity at full width, no bound on the extents", replay="strided"))
        if "bound8" in parts:
            d8 = {"DIMS_IN": n, "IN_SCALAR_T": "uint8_t", "VERIF_SIZE_T": "uint8_t", "WIDE_T": "unsigned",
                  "VERIF_STRIDED_BOUND": 1, "VERIF_EXTENT_MAX": 255, "VERIF_PROD_MAX": 255}
            for fl in ("debug", "ndebug"):
                cells.append(Cell("strided.bound8.N%d.%s" % (n, fl), "strided", "h_strided_at", defines=d8, flavour=fl,
                                  enforce="strided_at", unwind=5, backends=(("sat", 300), ("cadical", 300)),
                                  extra_checks=["--conversion-check"],
                                  closes_loops="unwinding to the template constant N (complete)",
                                  note="8-bit instantiation of the same text: flat position < number of cells, no truncation, for all extents with product <= 255",
                                  replay=None))
            cells.append(Cell("strided.injective8.N%d" % n, "strided", "h_strided_injective", defines=d8,
                              replace=["strided_at"], unwind=5, backends=(("sat", 600), ("cadical", 600)),
                              closes_loops="harness loop over N (complete)",
                              note="8-bit instantiation: injectivity over the contract", replay=None))
        if "bounded64" in parts:
            variants = [(16 if n <= 3 else 4, "")]
            if tier == "thorough" and n == 4:
                variants.append((16, ".e16"))
            for emax, suffix in variants:
                d64 = {"DIMS_IN": n, "IN_SCALAR_T": "size_t", "WIDE_T": "size_t",
                       "VERIF_STRIDED_BOUND": 1, "VERIF_EXTENT_MAX": emax, "VERIF_PROD_MAX": emax ** n}
                be = (("cadical", 900), ("sat", 600)) if n == 4 else (("sat", 300), ("cadical", 600))
                cells.append(Cell("strided.bounded64.N%d%s" % (n, suffix), "strided", "h_strided_at", defines=d64,
                                  enforce="strided_at", unwind=5, backends=be,
                                  extra_checks=["--unsigned-overflow-check", "--conversion-check"], kind="bounded",
                                  bound="every extent <= %d (64-bit types)" % emax,
                                  closes_loops="unwinding to the template constant N (complete)", replay="strided"))
                if suffix == "":
                    cells.append(Cell("strided.injective64b.N%d" % n, "strided", "h_strided_injective", defines=d64,
                                      replace=["strided_at"], unwind=5, backends=be, kind="bounded",
                                      bound="every extent <= %d (64-bit types)" % emax, closes_loops="harness loop over N (complete)"))
        if "alloc" in parts:
            for which in ("copy", "ctor", "conf"):
                cells.append(Cell("strided.alloc.%s.N%d" % (which, n), "strided", "h_strided_alloc_%s" % which,
                                  defines={"DIMS_IN": n, "IN_SCALAR_T": "size_t", "VERIF_B_NODOMAIN": 1},
                                  enforce="strided_alloc_size_%s" % which, unwind=5, backends=(("cvc5", 120), ("sat", 60)),
                                  closes_loops="accumulate stub loop over N (complete)"))
    return cells


def hilbert_cells(tier, parts, kmax_quick=10, kmax_thorough=13):
    cells = []
    kmax = kmax_thorough if tier == "thorough" else kmax_quick
    base = {"DIMS_IN": 2, "IN_SCALAR_T": "size_t"}
    if "rot" in parts:
        cells.append(Cell("hilbert.rot", "hilbert", "h_hilbert_rot", defines=dict(base, HILBERT_K=1),
                          enforce="hilbert_rot", extra_checks=["--unsigned-overflow-check"],
                          closes_loops="loop-free: complete for all 64-bit arguments", replay=None))
    for k in range(0, kmax + 1):
        tmo = 120 if k <= 8 else 1800
        be = (("sat", tmo), ("cadical", tmo))
        bound = "curve order k = %d (grid side 2^%d); complete for this grid" % (k, k)
        cl = "unwinding to k+1 with unwinding assertion (complete for this cell)"
        if "square" in parts:
            d = dict(base, HILBERT_K=k, VERIF_HILBERT_SQUARE=1)
            cells.append(Cell("hilbert.square.index.k%d" % k, "hilbert", "h_hilbert_index", defines=d, enforce="hilbert_calculate_index",
                              replace=["hilbert_rot"], unwind=max(k + 2, 3), backends=be, object_bits=12, kind="bounded", bound=bound, closes_loops=cl,
                              extra_checks=["--unsigned-overflow-check"], replay="hilbert"))
            cells.append(Cell("hilbert.square.injective.k%d" % k, "hilbert", "h_hilbert_injective", defines=d,
                              replace=["hilbert_rot"], unwind=max(k + 2, 3), backends=be, object_bits=12, kind="bounded", bound=bound, closes_loops=cl, replay="hilbert"))
            cells.append(Cell("hilbert.square.adjacent.k%d" % k, "hilbert", "h_hilbert_adjacent", defines=d,
                              replace=["hilbert_rot"], unwind=max(k + 2, 3), backends=be, object_bits=12, kind="bounded", bound=bound, closes_loops=cl, replay="hilbert"))
        if "box" in parts:
            d = dict(base, HILBERT_K=k)
            bb = "every extent vector with max extent in (2^%d, 2^%d]" % (k - 1, k) if k else "extent vector (1,1)"
            cells.append(Cell("hilbert.box.index.k%d" % k, "hilbert", "h_hilbert_index", defines=d, enforce="hilbert_calculate_index",
                              replace=["hilbert_rot"], unwind=max(k + 2, 3), backends=be, object_bits=12, kind="bounded", bound=bb, closes_loops=cl,
                              extra_checks=["--unsigned-overflow-check"], replay="hilbert"))
            cells.append(Cell("hilbert.box.injective.k%d" % k, "hilbert", "h_hilbert_injective", defines=d,
                              replace=["hilbert_rot"], unwind=max(k + 2, 3), backends=be, object_bits=12, kind="bounded", bound=bb, closes_loops=cl, replay="hilbert"))
            if k <= 8:
                for fl in ("debug", "ndebug"):
                    cells.append(Cell("hilbert.at.k%d.%s" % (k, fl), "hilbert", "h_hilbert_at", defines=d, enforce="hilbert_at", flavour=fl,
                                      replace=["hilbert_rot"], unwind=max(k + 2, 3), backends=be, object_bits=12, kind="bounded", bound=bb, closes_loops=cl, replay="hilbert"))
        if "alloc" in parts:
            d = dict(base, HILBERT_K=k)
            for which in ("copy", "ctor"):
                cells.append(Cell("hilbert.alloc.%s.k%d" % (which, k), "hilbert", "h_hilbert_alloc_%s" % which, defines=d,
                                  enforce="hilbert_alloc_size_%s" % which, replace=["round_pow2", "ipow"], unwind=5, kind="bounded",
                                  bound="max extent in (2^%d, 2^%d]" % (k - 1, k), extra_checks=["--unsigned-overflow-check"],
                                  closes_loops="max_element stub loop over N (complete)", replay="alloc"))
    return cells


def array_at_cells(tier):
    cells = []
    for fl in ("debug", "ndebug"):
        cells.append(Cell("array.at.%s" % fl, "array_at", "h_array_at", defines={"DIMS_OUT": 3, "OUT_SCALAR_T": "float"},
                          enforce="array_at", flavour=fl, closes_loops="loop-free", replay=None))
    for m, t in ((1, "float"), (3, "float"), (3, "double")):
        cells.append(Cell("array.addr.M%d.%s" % (m, t), "array_at", "h_array_addr", defines={"DIMS_OUT": m, "OUT_SCALAR_T": t},
                          replace=["array_at"], closes_loops="loop-free", note="element count symbolic up to 2^40", replay=None))
        cells.append(Cell("array.rw.M%d.%s" % (m, t), "array_at", "h_array_rw", defines={"DIMS_OUT": m, "OUT_SCALAR_T": t, "ARRAY_RW_MAX_ELEMS": 8},
                          replace=["array_at"], closes_loops="loop-free", kind="bounded", bound="at most 8 elements (store/load through memory)",
                          backends=(("sat", 300),), replay=None))
    return cells


# ------------------------------------------------------------------ C18
def cells_C18(tier, consts):
    cells = []
    for w, t in WIDTHS:
        fb = Cell("round_pow2.u%d" % w, "numeric", "h_round_pow2", defines={"T": t, "W": w, "VERIF_NO_LOOP_CONTRACTS": 1},
                  enforce="round_pow2", unwind=w + 2,
                  extra_checks=["--unsigned-overflow-check", "--conversion-check"],
                  closes_loops="unwinding to type width W+2 with unwinding assertion (complete)", replay="numeric")
        cells.append(Cell("round_pow2.u%d" % w, "numeric", "h_round_pow2", defines={"T": t, "W": w, "VERIF_USE_LOOP_CONTRACTS": 1},
                          enforce="round_pow2", loop_contracts=True, fallback=fb,
                          extra_checks=["--unsigned-overflow-check", "--conversion-check"],
                          closes_loops="loop contract (invariant + decreases): unbounded", replay="numeric"))
    # ipow: loop has at most W iterations (p >>= 1): closed by unwinding to W+1 with unwinding assertion (complete)
    for w, t in WIDTHS:
        for e in range(5):
            cells.append(Cell("ipow.e%d.u%d" % (e, w), "numeric", "h_ipow_small_e",
                              defines={"T": t, "W": w, "VERIF_IPOW_SMALL_E": 1, "VERIF_E": e},
                              enforce="ipow", unwind=w + 1,
                              backends=(("cvc5", 120), ("sat", 120)),
                              closes_loops="unwinding to type width W+1 with unwinding assertion (complete)",
                              note="exponent %d (the library passes the number of dimensions, 1..4), all b; plus ipow(2^k,%d) == 2^(k*%d) with ghost k" % (e, e, e),
                              replay="numeric"))
    cells.append(Cell("ipow.recurrence.u8", "numeric", "h_ipow_recurrence", defines={"T": "uint8_t", "W": 8},
                      unwind=9, backends=(("sat", 600), ("cadical", 600)),
                      closes_loops="unwinding to type width W+1 with unwinding assertion (complete)",
                      note="all 2^16 (b,e) pairs symbolically; determines b^e mod 2^8 by induction on e", replay="numeric"))
    cells.append(Cell("ipow.oracle.u8", "numeric", "h_ipow_oracle", defines={"T": "uint8_t", "W": 8},
                      unwindset=["ipow.0:9", "h_ipow_oracle.0:256"], backends=(("sat", 900), ("cadical", 900)),
                      closes_loops="ipow loop: unwinding to W+1; ghost oracle loop: unwinding to 2^W (complete)",
                      note="all 2^16 (b,e) pairs against repeated multiplication", replay="numeric"))
    cells += morton_cells(tier, ["alloc", "sizing"])
    if tier == "thorough":
        for w, t in WIDTHS[1:]:
            cells.append(Cell("ipow.recurrence.u%d.attempt" % w, "numeric", "h_ipow_recurrence", defines={"T": t, "W": w},
                              unwind=w + 1, backends=(("cvc5", 600), ("cadical", 600)), optional=True,
                              note="recorded attempt: nonlinear, undecided by every installed back end in the design probes",
                              replay="numeric"))
    return cells


PROPS["C18"] = {
    "level_text": "round_pow2 proved for all inputs at every width by a loop contract; ipow proved for all (b,e) at W=8 and for the exponents the library passes (0..4) and powers of two at W=16/32/64; Morton sizing lemma and both allocation-size expressions proved over the contracts for N=1..4 (unbounded in extents and coordinates)",
    "level_note": "ipow for general (b,e) at W>=16 is undecided by every installed back end and is not claimed; Hilbert storage size is covered by C01's per-k cells; std::max_element modelled by a stub",
    "design_ref": "DESIGN.md section 5 (C18)",
    "cells": cells_C18,
    "consts": True,
    "explanation": "round_pow2 and ipow extracted from numeric.hpp and verified against contracts stating C18",
    "trusted_base": [],
    "assumptions": [
        "ipow for all (b,e) is decided at W=8 only; at W=16/32/64 it is decided for exponents 0..4 (all call sites pass the number of dimensions) and for powers of two; general (b,e) at W>=16 is undecided by every installed back end (nonlinear)",
        "round_pow2 outside 1 <= i <= 2^(W-1) is outside the property's domain (the loop does not terminate for unsigned T)",
    ],
    "not_covered": ["ipow for arbitrary (b,e) at W >= 16 (undecided, see thorough tier attempt)"],
}


# ------------------------------------------------------------------ C14
def cells_C14(tier, consts):
    cells = morton_cells(tier, ["index"])
    cells += strided_cells(tier, ["formula"])
    cells += hilbert_cells(tier, ["rot", "square"])
    return cells


PROPS["C14"] = {
    "level_text": "Morton (all three implementations) proved equal to the bit-interleave for all in-domain 64-bit coordinates, N=1..4; row-major position proved equal to sum c_k prod N_l at full width (ring identity, cvc5); Hilbert curve facts (range, origin, injective, edge-adjacent) are BOUNDED: one complete cell per curve order k <= 10 (quick) / 13 (thorough), reported under bounded and not counted as proved",
    "level_note": "pdep hardware instruction modelled from the Intel SDM pseudocode; Morton masks evaluated by g++ from the real metaprogram; Hilbert is bounded by k",
    "design_ref": "DESIGN.md section 5 (C14)",
    "cells": cells_C14,
    "consts": True,
    "explanation": "index maps of the storage-order layers extracted and verified against the published curves",
    "trusted_base": ["_pdep_u64 stub written from the Intel SDM pseudocode (stubs/pdep.h)"],
    "assumptions": [],
    "not_covered": [],
}


# ------------------------------------------------------------------ C01
def cells_C01(tier, consts):
    cells = morton_cells(tier, ["index", "at", "injective", "sizing", "alloc", "monotone", "compose"])
    cells += strided_cells(tier, ["formula", "bound8", "bounded64", "alloc"])
    cells += hilbert_cells(tier, ["rot", "box", "alloc"], kmax_quick=8, kmax_thorough=11)
    cells += array_at_cells(tier)
    return cells


PROPS["C01"] = {
    "level_text": "Morton: lookup contract (one backend query at the interleaved position, inside the storage), injectivity and sizing proved unbounded for N=1..4; array backend lookup proved to return element i of its own buffer with disjoint elements; row-major: formula proved at full width, bound/injectivity decided at the 8-bit instantiation (complete there) plus bounded 64-bit cells; Hilbert: per-k cells (bounded)",
    "level_note": "row-major bound/injectivity at 64 bits rests on the width-independent mixed-radix lemma (machine arithmetic treated as mathematical beyond the 8-bit cell); field_view forwarding and owning->non-owning constructors not extracted",
    "design_ref": "DESIGN.md section 5 (C01)",
    "cells": cells_C01,
    "consts": True,
    "explanation": "storage-order layers: index in bounds, index map injective, array backend returns element i of its own buffer",
    "trusted_base": [],
    "assumptions": [],
    "not_covered": [],
}


# ------------------------------------------------------------------ C10
SCALARS5 = [("int", "int", False), ("unsigned", "unsigned", False), ("size_t", "size_t", False),
            ("float", "float", True), ("double", "double", True)]


def cells_C10(tier, consts):
    cells = []
    for n in (1, 2, 3, 4):
        un = "clamp@N=%d" % n
        for sname, sty, fl in SCALARS5:
            d = {"DIMS_IN": n, "IN_SCALAR_T": sty, "DIMS_OUT": 3 if n != 3 else 1, "OUT_SCALAR_T": "float"}
            if fl:
                d["VERIF_FLOATING"] = 1
            cells.append(Cell("clamp.adjust.N%d.%s" % (n, sname), un, "h_clamp_adjust", defines=d, enforce="clamp_adjust", unwind=6,
                              closes_loops="harness loops over N (complete)", replay="clamp"))
            cells.append(Cell("clamp.at.N%d.%s" % (n, sname), un, "h_clamp_at", defines=d, enforce="clamp_at",
                              replace=["clamp_adjust"], unwind=6, closes_loops="harness loops over N (complete)", replay="clamp"))
            if not fl:
                cells.append(Cell("clamp.safe.N%d.%s" % (n, sname), un, "h_clamp_safe", defines=dict(d, VERIF_CLAMP_OVER_STORAGE=1),
                                  replace=["clamp_at"], unwind=6, closes_loops="harness loops over N (complete)", replay="clamp"))
    return cells


PROPS["C10"] = {
    "level_text": "clamp::adjust and clamp::at proved against C10's statement for every coordinate value of int/unsigned/size_t/float/double (incl. type extremes and infinities), N=1..4, against an abstract backend; lemma: a box inside the extents puts the delegated coordinate inside the extents (the precondition of the storage-order contracts of C01)",
    "level_note": "std::clamp modelled by a stub written from [alg.clamp]; NaN coordinates and boxes with min > max are outside the domain; pack expansion / braced-init overload resolution modelled by rule R8",
    "design_ref": "DESIGN.md section 5 (C10)",
    "cells": cells_C10,
    "consts": False,
    "explanation": "clamp layer extracted and verified against an abstract backend contract",
    "trusted_base": ["std::clamp stub (stubs in contracts/clamp.h) per [alg.clamp]"],
    "assumptions": ["coordinates are not NaN; the configured box satisfies min <= max componentwise (std::clamp precondition)",
                    "composition with the storage layer is by the modular argument of C02 (each layer against the abstract backend)"],
    "not_covered": ["clamp's constructors (the .fill() overload does not compile, D9)"],
}


# ------------------------------------------------------------------ C11
def cells_C11(tier, consts):
    cells = []
    for n in (1, 2, 3, 4):
        for sname, sty, fl in SCALARS5:
            for m in ((1, 3) if n in (1, 3) else (3,)):
                d = {"DIMS_IN": n, "IN_SCALAR_T": sty, "DIMS_OUT": m, "OUT_SCALAR_T": "float" if n % 2 else "double"}
                if fl:
                    d["VERIF_FLOATING"] = 1
                cells.append(Cell("backup.at.N%d.M%d.%s" % (n, m, sname), "backup", "h_backup_at", defines=d, enforce="backup_at", unwind=6,
                                  closes_loops="early-return loop: unwinding to the template constant N (complete)", replay="backup"))
    return cells


PROPS["C11"] = {
    "level_text": "backup::at proved against C11's statement for every coordinate value of int/unsigned/size_t/float/double, N=1..4, M in {1,3}: default returned with zero backend queries iff some component is outside the closed box, otherwise exactly one query at the unchanged coordinate and its value returned bit-identically",
    "level_note": "NaN coordinates / NaN box bounds are outside the domain; abstract backend stub",
    "design_ref": "DESIGN.md section 5 (C11)",
    "cells": cells_C11, "consts": False,
    "explanation": "backup layer extracted and verified against an abstract backend contract with a query counter",
    "trusted_base": [], "assumptions": ["coordinates and box bounds are not NaN"],
    "not_covered": ["backup's constructors (the .fill() overload does not compile, D9)"],
}


# ------------------------------------------------------------------ C04
def cells_C04(tier, consts):
    cells = []
    for n in (1, 2, 3, 4):
        for cname, cty, lrint, mant in (("float", "float", "lrintf", 24), ("double", "double", "lrint", 52)):
            for iname, ity, lo, himax in (("size_t", "size_t", "-0.5", 63), ("unsigned", "unsigned", "-0.5", 32), ("int", "int", None, 31)):
                if tier == "quick" and n in (2, 4) and iname != "size_t":
                    continue
                e = min(mant, himax)
                hi = "%d.0" % (2 ** e - (1 if himax <= mant else 0))
                d = {"DIMS_IN": n, "IN_SCALAR_T": cty, "B_IN_SCALAR_T": ity, "DIMS_OUT": 1 if n == 2 else 3, "OUT_SCALAR_T": "float",
                     "VERIF_LRINT": lrint, "NN_LO": lo if lo else "-" + hi, "NN_HI": hi}
                cells.append(Cell("nn.at.N%d.%s.%s" % (n, cname, iname), "nn", "h_nn_at", defines=d, enforce="nn_at", unwind=6,
                                  backends=(("sat", 300), ("cadical", 300)),
                                  closes_loops="unwinding to the template constant N (complete)",
                                  note="coordinates in [%s, %s]" % (d["NN_LO"], hi), replay="nn"))
    return cells


PROPS["C04"] = {
    "level_text": "nearest_neighbour::at proved: exactly one backend query at a lattice point within one half of the coordinate in every component, for float and double coordinates, size_t/unsigned/int lattice indices, N=1..4, all coordinates in the stated range (all bit patterns)",
    "level_note": "CBMC's model of lrintf/lrint in round-to-nearest-even; coordinates limited to the range on which every lattice point is representable in the coordinate type and the index type (2^24 float / 2^52 double / index max)",
    "design_ref": "DESIGN.md section 5 (C04)",
    "cells": cells_C04, "consts": False,
    "explanation": "nearest-neighbour layer extracted and verified against an abstract backend contract",
    "trusted_base": ["CBMC's models of lrintf/lrint (round to nearest, ties to even)"],
    "assumptions": ["default rounding mode"],
    "not_covered": [],
}


# ------------------------------------------------------------------ C08
def binio_cells(tier):
    cells = []
    for fl in ("debug", "ndebug"):
        for t in ("u32", "u64", "f32", "f64"):
            cells.append(Cell("io.read_binary.%s.%s" % (t, fl), "binary_io", "h_read_binary_%s" % t, enforce="read_binary_%s" % t,
                              flavour=fl, closes_loops="loop-free", replay="binary_io", trace_extra=("rv",),
                              defines={"VERIF_REPLAY_FN": {"u32": 0, "u64": 1, "f32": 2, "f64": 3}[t]}))
        for nm in ("read_io_header", "read_io_footer"):
            cells.append(Cell("io.%s.%s" % (nm, fl), "binary_io", "h_%s" % nm, enforce=nm, replace=["read_binary_u32"],
                              flavour=fl, closes_loops="loop-free", replay="binary_io", trace_extra=("hdr1", "hdr2", "ftr1", "ftr2"),
                              defines={"VERIF_REPLAY_FN": 10 if nm == "read_io_header" else 11}))
    for nm in ("write_io_header", "write_io_footer"):
        cells.append(Cell("io.%s" % nm, "binary_io", "h_%s" % nm, enforce=nm, closes_loops="loop-free", replay=None))
    cells.append(Cell("io.constants", "binary_io", "h_io_constants", closes_loops="loop-free"))
    return cells


READ_CALLEES = ["read_io_header", "read_io_footer", "read_binary_u32", "read_binary_u64", "read_binary_f32", "read_binary_f64"]
WRITE_CALLEES = ["write_io_header", "write_io_footer"]


def array_io_cells(tier, parts):
    cells = []
    if tier == "quick":
        rcombos = [(1, "float", "ndebug"), (1, "double", "debug")]
        wcombos = [(1, "float")]
    else:
        # M = 2, 3 were measured: single obligation groups (postconditions, loop-invariant step) exceed 25 min each, so the
        # thorough tier adds the other scalar type and the other build flavour at M = 1 only (stated in the evidence)
        # (1, float, debug) was measured too: one obligation group runs > 20 min; not in the registered tiers
        rcombos = [(1, "float", "ndebug"), (1, "double", "debug"), (1, "double", "ndebug")]
        wcombos = [(1, "float"), (1, "double")]
    if "read" in parts:
        for m, t, fl in rcombos:
            d = {"DIMS_OUT": m, "OUT_SCALAR_T": t, "VERIF_USE_LOOP_CONTRACTS": 1}
            cells.append(Cell("io.array.read.M%d.%s.%s" % (m, t, fl), "array_io", "h_array_read_binary", defines=d, flavour=fl,
                              enforce="array_read_binary", replace=READ_CALLEES, loop_contracts=True,
                              unwindset=["array_read_binary.0:%d" % (m + 1)], object_bits=12, backends=(("sat", 3000),), split=7,
                              closes_loops="element loop: loop contract with ghost element index, symbolic count up to 2^32; component loop: unwinding to M",
                              note="both on-disk widths (4 and 8) in one cell: widening is exact, narrowing is the cast's round-to-nearest", replay=None))
    if "write" in parts:
        for m, t in wcombos:
            d = {"DIMS_OUT": m, "OUT_SCALAR_T": t, "VERIF_USE_LOOP_CONTRACTS": 1}
            cells.append(Cell("io.array.write.M%d.%s" % (m, t), "array_io", "h_array_write_binary", defines=d,
                              enforce="array_write_binary", replace=WRITE_CALLEES, loop_contracts=True,
                              unwindset=["array_write_binary.0:%d" % (m + 1)], object_bits=12, backends=(("sat", 3000),), split=7,
                              closes_loops="element loop: loop contract with ghost element index, symbolic count up to 2^32; component loop: unwinding to M",
                              replay=None))
    return cells


def cells_C08(tier, consts):
    return binio_cells(tier) + array_io_cells(tier, ["read"])


def layer_io_cells(tier):
    cells = []
    for L, nm, dims in (("1", "strided", (1, 3)), ("2", "morton", (2, 3)), ("3", "hilbert", (2,))):
        for n in dims:
            if tier == "quick" and not (nm == "strided" and n == 3):
                continue
            d = {"DIMS_IN": n, "LAYER": L}
            un = "layer_io@L=" + L
            cells.append(Cell("io.%s.ndsize.N%d" % (nm, n), un, "h_read_binary_ndsize", defines=d, enforce="read_binary_ndsize", closes_loops="loop-free",
                              backends=(("cadical", 900), ("sat", 600))))
            for fl in ("debug", "ndebug"):
                cells.append(Cell("io.%s.read.N%d.%s" % (nm, n, fl), un, "h_layer_read_binary", defines=d, flavour=fl, enforce="layer_read_binary",
                                  replace=["read_io_header", "read_io_footer", "read_binary_ndsize"], closes_loops="loop-free",
                                  backends=(("cadical", 1500),), split=6))
            cells.append(Cell("io.%s.write.N%d" % (nm, n), un, "h_layer_write_binary", defines=d, enforce="layer_write_binary",
                              replace=["write_io_header", "write_io_footer"], closes_loops="loop-free", backends=(("cadical", 1500),), split=6))
            if tier == "thorough" and os.environ.get("VERIF_ATTEMPTS"):
                # not in the registered tiers: measured, no back end decides the lemma within 40 min / 10 GB (4 of 5
                # instances; the fifth exposed a harness slip, since corrected); run with VERIF_ATTEMPTS=1 to record an attempt
                cells.append(Cell("io.%s.roundtrip.N%d" % (nm, n), un, "h_layer_roundtrip", defines=d, optional=True,
                                  replace=["layer_write_binary", "layer_read_binary"], unwind=5, closes_loops="harness loops over N", backends=(("cadical", 2400),),
                                  note="round-trip lemma over the two contracts (recorded attempt: needs ~8 min and close to the 10 GB memory cap; decided when run alone)"))
    for L, nm in (("4", "clamp"), ("5", "backup")):
        if tier == "quick":
            break      # 8-10 min each on a loaded machine: thorough tier only
        # (3, double, 1, double) was dropped: its write cell exhausts the 10 GB cap even when run alone
        combos = [(2, "float", 3, "float")]
        for n, ist, m, ost in combos:
            d = {"DIMS_IN": n, "LAYER": L, "IN_SCALAR_T": ist, "DIMS_OUT": m, "OUT_SCALAR_T": ost}
            un = "layer_io@L=" + L
            tag = "N%d.%s" % (n, ist)
            heavy_note = ("recorded attempt: these byte-level obligations need up to the 10 GB memory cap per solver process and 10-50 min; "
                          "a pass is counted, an undecided outcome is reported in the evidence and does not affect the verdict, a refutation is reported as a violation")
            cells.append(Cell("io.%s.invec.%s" % (nm, tag), un, "h_read_binary_invec", defines=d, enforce="read_binary_invec", closes_loops="loop-free",
                              backends=(("cadical", 900), ("sat", 600)), optional=True, note=heavy_note))
            for fl in ("ndebug",):
                cells.append(Cell("io.%s.read.%s.%s" % (nm, tag, fl), un, "h_layer_read_binary", defines=d, flavour=fl, enforce="layer_read_binary",
                                  replace=["read_io_header", "read_io_footer", "read_binary_invec", "read_binary_outvec"], closes_loops="loop-free",
                                  backends=(("cadical", 1800),), split=6, optional=True, note=heavy_note))
            cells.append(Cell("io.%s.write.%s" % (nm, tag), un, "h_layer_write_binary", defines=d, enforce="layer_write_binary",
                              replace=["write_io_header", "write_io_footer"], closes_loops="loop-free", backends=(("cadical", 1800),), split=6,
                              optional=True, note=heavy_note))
    return cells


def thin_io_cells(tier, which=("1", "2", "3", "4", "5", "6", "7", "8")):
    cells = []
    names = {"1": "linear", "2": "nn", "3": "shuffle", "6": "cast", "7": "deref"}
    for T in which:
        un = "thin_io@T=" + T
        d = {"THIN": T}
        if T in names:
            for fl in ("debug", "ndebug"):
                cells.append(Cell("io.%s.read.%s" % (names[T], fl), un, "h_thin_read_binary", defines=d, flavour=fl, enforce="thin_read_binary", closes_loops="loop-free"))
            cells.append(Cell("io.%s.write" % names[T], un, "h_thin_write_binary", defines=d, enforce="thin_write_binary", closes_loops="loop-free"))
        elif T == "4":
            for fl in ("debug", "ndebug"):
                cells.append(Cell("io.identity.read.%s" % fl, un, "h_ident_read_binary", defines=d, flavour=fl, enforce="ident_read_binary",
                                  replace=["read_io_header", "read_io_footer"], closes_loops="loop-free", backends=(("cadical", 900), ("sat", 600))))
            cells.append(Cell("io.identity.write", un, "h_ident_write_binary", defines=d, enforce="ident_write_binary",
                              closes_loops="loop-free", backends=(("cadical", 900), ("sat", 600)),
                              note="write_io_header/footer bodies inlined here (their own contracts are enforced in io.write_io_*): replacing both calls exhausted the solver's memory"))
        elif T == "8":
            d8 = dict(d, DIMS_OUT=3, OUT_SCALAR_T="float")
            cells.append(Cell("io.constant.outvec", un, "h_read_binary_outvec", defines=d8, enforce="read_binary_outvec", closes_loops="loop-free", backends=(("cadical", 900), ("sat", 600))))
            for fl in ("debug", "ndebug"):
                cells.append(Cell("io.constant.read.%s" % fl, un, "h_const_read_binary", defines=d8, flavour=fl, enforce="const_read_binary",
                                  replace=["read_io_header", "read_io_footer", "read_binary_outvec"], closes_loops="loop-free", backends=(("cadical", 1500),), split=6))
            cells.append(Cell("io.constant.write", un, "h_const_write_binary", defines=d8, enforce="const_write_binary",
                              closes_loops="loop-free", backends=(("cadical", 1500),), split=6,
                              note="write_io_header/footer bodies inlined (their contracts are enforced in io.write_io_*)"))
        elif T == "5":
            for fl in ("debug", "ndebug"):
                cells.append(Cell("io.field.load.%s" % fl, un, "h_field_load", defines=d, flavour=fl, enforce="field_load",
                                  replace=["read_io_header", "read_io_footer"], closes_loops="loop-free", backends=(("cadical", 1500),), split=6))
            cells.append(Cell("io.field.dump", un, "h_field_dump", defines=d, enforce="field_dump",
                              replace=["write_io_header", "write_io_footer"], closes_loops="loop-free", backends=(("cadical", 1500),), split=6))
    return cells


def cells_C06(tier, consts):
    cells = binio_cells(tier) + array_io_cells(tier, ["read", "write"]) + layer_io_cells(tier) + thin_io_cells(tier)
    if tier == "quick":
        keep = lambda c: (not c.id.startswith(("io.array.read.M1.double", "io.nn.", "io.shuffle.", "io.deref."))
                          and not (c.id.startswith(("io.strided.read", "io.field.load", "io.identity.read", "io.linear.read", "io.cast.read", "io.constant.read")) and c.id.endswith(".debug")))
        cells = [c for c in cells if keep(c)]
    return cells


def cells_C07(tier, consts):
    cells = [c for c in binio_cells(tier) if "write_io" in c.id or "constants" in c.id]
    cells += array_io_cells(tier, ["read"])          # both on-disk widths are decided inside every reader cell
    cells += thin_io_cells(tier, which=("1", "2"))   # interpolators write no bytes of their own
    return cells


PROPS["C06"] = {
    "level_text": "writers and readers proved against the golden byte grammar of the pinned revision, modularly: header/footer primitives; the array backend's payload (element loops closed by loop contracts, symbolic count); the framing of strided / morton / hilbert (tag, extents, inner image, footer), clamp and backup (tag, raw configuration vectors, inner image, footer; thorough tier only, as optional recorded attempts: their solver runs need several GB and are counted only when they finish), constant, identity, the pass-through layers and field::dump / field(istream&) -- each against an ABSTRACT inner-backend serialiser; the per-layer round trip follows from the two contracts (writer and reader are proved against the same byte grammar) but the lemma combining them is NOT mechanised in the registered tiers (no back end decides it within 40 min / 10 GB; VERIF_ATTEMPTS=1 records an attempt); writers are functions of configuration and payload only (re-dump gives the same bytes)",
    "level_note": "the stack-level statement is the structural induction over layers (meta-level, unchecked; the inner backend's own round trip is the induction hypothesis); the affine layer's serialiser is NOT under contract; constant, covariant_cast and dereference serialisers did not compile when instantiated (D7/D8): repaired by fix: commits and now under contract; std::iostream modelled by the ghost stream; stream limited to 2^40 bytes, array to 2^32 elements",
    "design_ref": "DESIGN.md section 5 (C06/C07/C08)",
    "cells": cells_C06, "consts": True,
    "explanation": "serialisers against the golden grammar, modular in the inner backend",
    "trusted_base": ["ghost stream model (stubs/stream.h)", "abstract inner-backend serialiser (stubs/backend_io.h)"],
    "assumptions": ["stack = structural induction over layers (meta-lemma)", "output never fails (no I/O errors modelled)"],
    "not_covered": ["affine layer serialiser", "cuda_device_array"],
}


PROPS["C07"] = {
    "level_text": "array::read_binary proved for BOTH on-disk scalar widths against either in-memory type in one cell (stored float -> double: exact; stored double -> float: the cast's IEEE round-to-nearest), count and footer unchanged; linear and nearest_neighbour serialisers proved to write/read exactly the inner backend's bytes (no tag, no footprint), hence files are interchangeable between interpolation methods; magic words, tags and the header/payload/footer grammar are fixed in the contracts from the pinned revision, so a consistent change of writer and reader fails the writer's postcondition",
    "level_note": "round-to-nearest of the double->float cast is trusted compiler/hardware semantics (CBMC's model); committed golden files are a testing artefact and not used; layer framing grammar for the remaining layers is under C06",
    "design_ref": "DESIGN.md section 5 (C06/C07/C08)",
    "cells": cells_C07, "consts": True,
    "explanation": "width portability, interpolator pass-through, golden grammar",
    "trusted_base": ["ghost stream model (stubs/stream.h)", "CBMC's float<->double conversion model"],
    "assumptions": ["little-endian host"],
    "not_covered": ["revisions other than the pinned one"],
}


PROPS["C08"] = {
    "level_text": "read_binary<T> (uint32_t, uint64_t, float, double), read_io_header and read_io_footer proved against 'throws iff fewer bytes than needed are available / magic or tag differ; the value returned is the bytes read' for every stream content, length and position; array::read_binary proved to return normally iff the stream holds a complete well-formed array image (header, width in {4,8}, count, count*M scalars, footer) and to throw otherwise (element loop closed by a loop contract, count symbolic)",
    "level_note": "std::istream modelled by the ghost byte-stream contract of stubs/stream.h; exception propagation modelled by rule R14",
    "design_ref": "DESIGN.md section 5 (C06/C07/C08)",
    "cells": cells_C08, "consts": True,
    "explanation": "binary IO primitives extracted and verified over a ghost byte stream",
    "trusted_base": ["ghost stream model of std::istream::read / std::ostream::write (stubs/stream.h)"],
    "assumptions": ["the stream handed to the reader is initially good()",
                    "truncation theorem (meta-level): a reader that returns normally consumed exactly the image length through read_binary<T> calls, so on a proper prefix some read_binary<T> sees a short stream and throws, and rule R14 propagates it"],
    "not_covered": ["count words above 2^32 elements (allocation failure / memory exhaustion)", "layer readers other than the array backend are covered by C06's framing cells"],
}


# ------------------------------------------------------------------ C12
def cells_C12(tier, consts):
    cells = []
    combos = [(3, "float")] if tier == "quick" else [(1, "float"), (3, "float"), (3, "double")]
    for m, t in combos:
        d = {"DIMS_OUT": m, "OUT_SCALAR_T": t}
        for fl in ("debug", "ndebug"):
            for h, f in (("copy_assign_distinct", "array_copy_assign"), ("copy_assign_self", "array_copy_assign"), ("copy_ctor", "array_copy_ctor"),
                         ("default_ctor", "array_default_ctor"), ("size_ctor", "array_size_ctor"), ("adopt_ctor", "array_adopt_ctor")):
                cells.append(Cell("own.%s.M%d.%s.%s" % (h, m, t, fl), "array_own", "h_array_%s" % h, defines=d, flavour=fl, enforce=f,
                                  extra_checks=["--memory-leak-check", "--unsigned-overflow-check"], object_bits=10,
                                  backends=(("sat", 600), ("cadical", 600)), closes_loops="loop-free (memcpy is CBMC's array copy)",
                                  note="element count symbolic up to 2^32, ghost element index", replay="array_own"))
    return cells


PROPS["C12"] = {
    "level_text": "the hand-written ownership operations of the array backend (default / sized / adopting constructors, copy constructor, copy assignment incl. self-assignment and moved-from targets) proved to preserve the representation invariant and the plain-array model for all sizes, contents and aliasings: returns *this, target equals source element-wise, source unchanged, storage not shared, no leak / double free / use after free; by induction over operations this covers every history of those operations",
    "level_note": "defaulted and implicit special members (moves, wrapper layers, field) are assumed to act member-wise as the standard says; std::unique_ptr/make_unique modelled by heap stubs; conversions and dump/load are C05/C06",
    "design_ref": "DESIGN.md section 5 (C12)",
    "cells": cells_C12, "consts": False,
    "explanation": "representation invariant + abstract view preserved by every hand-written ownership operation",
    "trusted_base": ["heap stubs for std::unique_ptr<T[]> / std::make_unique<T[]> (contracts/array_own.h)", "CBMC's memcpy / malloc / free models and --memory-leak-check"],
    "assumptions": ["= default / implicit special members copy and move member-wise; unique_ptr move leaves the source null"],
    "not_covered": ["histories are not explored; the claim is per-operation preservation of the invariant and model",
                    "allocation failure (std::bad_alloc) paths"],
}


# ------------------------------------------------------------------ C02
def simple_layer_cells(tier):
    cells = []
    cl = "loop-free / harness loops over N (complete)"
    for perm in ("0", "1_0", "2_0_1", "0_2_1", "3_1_0_2"):
        n = len(perm.split("_"))
        for sty, m in (("float", 3), ("size_t", 1)):
            d = {"DIMS_IN": n, "IN_SCALAR_T": sty, "DIMS_OUT": m, "OUT_SCALAR_T": "float", "UNIT_SHUFFLE": 1,
                 "VERIF_PERM": "{" + perm.replace("_", ",") + "}", "VERIF_PERM_LIST": perm.replace("_", ",")}
            un = "shuffle@perm=" + perm
            cells.append(Cell("shuffle.shuffle.p%s.%s" % (perm, sty), un, "h_shuffle_shuffle", defines=d, enforce="shuffle_shuffle", unwind=6, closes_loops=cl, replay="simple_layers"))
            cells.append(Cell("shuffle.at.p%s.%s.M%d" % (perm, sty, m), un, "h_shuffle_at", defines=d, enforce="shuffle_at", replace=["shuffle_shuffle"], unwind=6, closes_loops=cl, replay="simple_layers"))
    for n, m in ((1, 1), (2, 2), (3, 3), (1, 3), (1, 2), (3, 1), (2, 3), (4, 2)):
        pairs = [("float", "double"), ("double", "float")]
        if (n, m) in ((1, 1), (3, 3), (1, 3)):
            pairs += [("double", "double"), ("int", "double"), ("long", "double")]   # a detour through a narrower type must show
        for src, dst in pairs:
            d = {"DIMS_IN": n, "IN_SCALAR_T": "float", "DIMS_OUT": m, "OUT_SCALAR_T": src, "CAST_T": dst, "UNIT_CAST": 1}
            un = "cast@N=%d,M=%d" % (n, m)
            cells.append(Cell("cast.at_helper.N%d.M%d.%s_to_%s" % (n, m, src, dst), un, "h_cast_at_helper", defines=d, enforce="cast_at_helper", unwind=6, closes_loops=cl, replay="simple_layers"))
            cells.append(Cell("cast.at.N%d.M%d.%s_to_%s" % (n, m, src, dst), un, "h_cast_at", defines=d, enforce="cast_at", replace=["cast_at_helper"], unwind=6, closes_loops=cl, replay="simple_layers"))
    for n, m in ((1, 1), (3, 3), (1, 3), (3, 1), (2, 4)):
        for sty in ("float", "size_t"):
            d = {"DIMS_IN": n, "IN_SCALAR_T": sty, "DIMS_OUT": m, "OUT_SCALAR_T": "double" if m == 4 else "float"}
            cells.append(Cell("deref.at.N%d.M%d.%s" % (n, m, sty), "deref", "h_deref_at", defines=dict(d, UNIT_DEREF=1), enforce="deref_at", unwind=6, closes_loops=cl, replay="simple_layers"))
            cells.append(Cell("constant.at.N%d.M%d.%s" % (n, m, sty), "constant", "h_constant_at", defines=dict(d, UNIT_CONSTANT=1), enforce="constant_at", unwind=6, closes_loops=cl, replay="simple_layers"))
    for n in (1, 2, 3, 4):
        for sty in ("float", "size_t", "int"):
            d = {"DIMS_IN": n, "IN_SCALAR_T": sty, "DIMS_OUT": n, "OUT_SCALAR_T": sty, "IDENT_OUT_T": sty, "UNIT_IDENTITY": 1}
            cells.append(Cell("identity.at.N%d.%s" % (n, sty), "identity", "h_identity_at", defines=d, enforce="identity_at", unwind=6,
                              closes_loops="unwinding to the template constant N (complete)", replay="simple_layers"))
    return cells


def cells_C02(tier, consts):
    cells = simple_layer_cells(tier)
    # the other layers' lookups against the same abstract backend (N != M instances included)
    cells += [c for c in cells_C10(tier, consts) if c.id.startswith(("clamp.at.", "clamp.adjust."))]
    cells += cells_C11(tier, consts)
    cells += [c for c in cells_C04(tier, consts) if ".N1." in c.id or ".N3." in c.id]
    cells += [c for c in morton_cells(tier, ["at"]) if c.id.endswith(".size_t.ndebug")]
    cells += [c for c in strided_cells(tier, ["formula"]) if c.id.endswith(".size_t.ndebug")]
    return cells


PROPS["C02"] = {
    "level_text": "every layer's lookup is proved, in isolation, against an ABSTRACT backend contract: it queries the backend (the stated number of times) at f(c), returns g(backend value), and writes nothing else -- shuffle (arg[k]=c[perm[k]]), covariant_cast (result[k]=(T)B(c)[k], k<M), dereference, constant, identity, clamp, backup, nearest neighbour, Morton, row-major; N and M are independent macros, so N != M is a first-class cell. Because the backend is abstract, what a layer does cannot depend on which layers lie beneath it",
    "level_note": "the composition step (structural induction over the stack) is a two-line meta-argument, not checked by CBMC; braced-init overload resolution of covfie::array (broadcast for one initialiser) is modelled by rule R8; field_view's variadic at() is not extracted; linear is C03, affine is C09",
    "design_ref": "DESIGN.md section 5 (C02)",
    "cells": cells_C02, "consts": True,
    "explanation": "modular verification of each layer against an abstract backend",
    "trusted_base": ["abstract backend stub stubs/backend.h", "rule R8: pack expansion and covfie::array braced-init overload resolution"],
    "assumptions": ["stack = structural induction over layers (meta-lemma, unchecked)"],
    "not_covered": ["field_view::at variadic/vector overloads", "linear (C03) and affine (C09) layers are decided under their own properties"],
}


# ------------------------------------------------------------------ C03
def cells_C03(tier, consts):
    cells = []
    combos_q = [(1, 1, "float", "float"), (1, 3, "float", "float"), (1, 2, "double", "float"), (2, 2, "float", "float"), (2, 1, "float", "float"), (2, 3, "double", "float"),
                (3, 3, "float", "float"), (3, 1, "float", "double"), (3, 1, "double", "float"), (4, 2, "float", "float"), (4, 1, "double", "float")]
    combos_t = combos_q + [(1, 2, "double", "double"), (2, 2, "double", "double"), (3, 2, "double", "float"), (3, 3, "double", "double"),
                           (4, 4, "float", "float"), (4, 1, "double", "float"), (5, 1, "float", "float")]
    combos = combos_t if tier == "thorough" else combos_q
    for n in sorted(set(c[0] for c in combos)):
        cells.append(Cell("linear.helper.N%d" % n, "linear@N=%d" % n, "h_linear_index_helper",
                          defines={"DIMS_IN": n, "DIMS_OUT": 1, "IN_SCALAR_T": "float", "OUT_SCALAR_T": "float", "VERIF_TRUNC": "truncf"},
                          enforce="linear_index_helper", unwind=7, extra_checks=["--unsigned-overflow-check"] if False else [],
                          closes_loops="loop-free", replay=None))
    for n, m, cty, sty in combos:
        d = {"DIMS_IN": n, "DIMS_OUT": m, "IN_SCALAR_T": cty, "OUT_SCALAR_T": sty, "B_IN_SCALAR_T": "size_t",
             "VERIF_TRUNC": "truncf" if cty == "float" else "trunc"}
        un = "linear@N=%d" % n
        uw = (1 << n) + 2 if (1 << n) + 2 > m + 2 else m + 2
        tmo = 600 if n <= 2 else 1800
        be = (("cadical", tmo), ("sat", tmo))   # minisat is erratic on the float products; cadical is consistently faster
        cells.append(Cell("linear.at.N%d.M%d.%s.%s" % (n, m, cty, sty), un, "h_linear_at", defines=d, enforce="linear_at",
                          replace=["linear_index_helper"], unwind=uw, backends=be, object_bits=10,
                          closes_loops="unwinding to the template constants 2^N, N, M (complete)",
                          note="neighbour set (all coordinates, all data) + lattice exactness (all finite data)", replay="linear"))
        if tier == "quick" and n >= 4:
            continue   # the generic-branch weights cells take 8-12 min: thorough tier only
        if n >= 4 and m >= 3:
            continue   # 16 neighbours x M outputs of symbolic float products: no back end finishes within 30 min
        cells.append(Cell("linear.weights.N%d.M%d.%s.%s" % (n, m, cty, sty), un, "h_linear_weights", defines=dict(d, VERIF_LIN_WEIGHTS=1), enforce="linear_at",
                          replace=["linear_index_helper"], unwind=uw, backends=be, object_bits=10,
                          closes_loops="unwinding to the template constants 2^N, N, M (complete)",
                          note="exact sub-domain: basis data, fractional parts in {0,1/4,1/2,3/4}, cell index symbolic up to 2^21 (float) / 2^23 (double coordinates)", replay="linear"))
    return cells


PROPS["C03"] = {
    "level_text": "linear::at proved, per (N, M, coordinate type, stored type) with N and M independent: (1) exactly the 2^N lattice points surrounding the coordinate are queried, each once, for all coordinates and data; (2) at lattice points the stored value is returned exactly for all finite data; (3) on the exact sub-domain (basis data, fractional parts in {0,1/4,1/2,3/4}) the result is the product of the per-axis weights exactly -- which pins cell choice, neighbour/weight pairing and dimension dispatch",
    "level_note": "the general statement for arbitrary fractions and data (error bound 'up to rounding', range containment) is NOT decided: symbolic float x float products time out on every installed back end; coordinates limited to [0, 2^23-1]; CBMC's float and trunc models",
    "design_ref": "DESIGN.md section 5 (C03)",
    "cells": cells_C03, "consts": False,
    "explanation": "linear layer extracted and verified against a 2^N-point cell backend stub",
    "trusted_base": ["CBMC's IEEE-754 model (round to nearest even) and truncf/trunc models", "2^N-point cell stub (contracts/linear.h)"],
    "assumptions": ["coordinates in [0, 2^23 - 1] (integer part and its successor exactly representable in the coordinate type)",
                    "lattice values are finite and stay finite when converted to the coordinate precision (a double above FLT_MAX read through float coordinates becomes inf, and 0*inf = NaN)"],
    "not_covered": ["forward error bound for arbitrary fractional parts and data", "containment in the range of the surrounding values"],
}


# ------------------------------------------------------------------ C15 / C16 (sweeps over every extracted function)
import copy
import re as _re


def _both_flavours(cells):
    out, seen = [], set()
    for c in cells:
        base = _re.sub(r"\.(debug|ndebug)$", "", c.id)
        for fl in ("debug", "ndebug"):
            key = (base, fl)
            if key in seen:
                continue
            seen.add(key)
            d = copy.copy(c)
            d.id = base + "." + fl
            d.flavour = fl
            out.append(d)
    return out


def sweep_cells(tier, consts, lookups_only=False):
    """One cell per distinct code path of every function under contract (quick selection of each property)."""
    cells = []
    cells += [c for c in morton_cells("quick", ["index", "at"]) if ".N3." in c.id or ".N2." in c.id or (tier == "thorough")]
    cells += [c for c in strided_cells("quick", ["formula", "bound8"]) if ".N3." in c.id or ".N2." in c.id or tier == "thorough"]
    cells += [c for c in hilbert_cells("quick", ["rot", "box"], kmax_quick=4) if "injective" not in c.id]
    cells += array_at_cells("quick")[:2]
    cells += [c for c in cells_C10("quick", consts) if c.enforce and (".N3." in c.id or tier == "thorough")]
    cells += [c for c in cells_C11("quick", consts) if ".N3." in c.id or ".N2." in c.id or tier == "thorough"]
    cells += [c for c in cells_C04("quick", consts) if ".N3." in c.id or tier == "thorough"]
    cells += [c for c in simple_layer_cells("quick") if c.enforce and ("N3" in c.id or "p2_0_1" in c.id or "N1.M3" in c.id or tier == "thorough")]
    cells += [c for c in cells_C03("quick", consts) if "weights" not in c.id and (".N2." in c.id or ".N4." in c.id or "helper" in c.id or tier == "thorough")]
    if not lookups_only:
        cells += [c for c in cells_C18("quick", consts) if c.enforce and (c.id.startswith("round_pow2") or ".u64" in c.id or ".u8" in c.id or "alloc" in c.id)]
        cells += binio_cells("quick")
        if tier == "thorough":   # the payload-loop cells take minutes each; in the quick tier they run under C06/C08 only
            # (the float reader in the debug flavour is not used: one of its obligation groups runs > 20 min)
            cells += [c for c in array_io_cells("quick", ["read", "write"]) if "read.M1.double" in c.id or "write.M1.float" in c.id]
        cells += cells_C12("quick", consts)
    cells = [c for c in cells if c.enforce]
    return cells


def static_fact_return_type(tier, scratch):
    src = os.path.join(VERIF, "tools", "instantiate.cpp")
    cmd = ["g++", "-std=c++20", "-fsyntax-only", "-Wreturn-type", "-Werror=return-type", "-I", os.path.join(extract.REPO, "lib/core"), src]
    p = subprocess.run(cmd, capture_output=True, text=True)
    errs = [l for l in p.stderr.splitlines() if "error" in l]
    rt = [l for l in errs if "return" in l and ("no return statement" in l or "control reaches end" in l)]
    if rt:
        st, detail = "violated", rt[0][:400]
    elif errs:
        st, detail = "undecided", "instantiation TU does not compile: " + errs[0][:300]
    else:
        st, detail = "holds", "every member function body of the instantiated layers returns a value on all paths (g++ -Wreturn-type)"
    return {"name": "value-returning-functions-return", "status": st, "tool": "g++ 12 -fsyntax-only -Wreturn-type", "cmd": " ".join(cmd),
            "detail": detail, "obligation": "Wreturn-type"}


ASSERT_PURE_CALLS = ("good", "eof", "fail", "bad", "size", "get")


def static_fact_assert_purity(tier, scratch):
    """debug and NDEBUG builds differ only in assert(...) / #ifndef NDEBUG blocks; those must be side-effect free."""
    bad, n = [], 0
    root = os.path.join(extract.REPO, "lib/core/covfie/core")
    for dp, dn, fn in os.walk(root):
        for f in fn:
            if not f.endswith(".hpp"):
                continue
            text = extract.blank_comments_and_strings(open(os.path.join(dp, f)).read())
            for m in _re.finditer(r"\bassert\s*\(", text):
                cp = extract.match_close(text, m.end() - 1)
                e = text[m.end():cp]
                n += 1
                if _re.search(r"(?<![=!<>])=(?!=)|\+\+|--", e):
                    bad.append("%s: assert(%s)" % (f, " ".join(e.split())))
                for cm in _re.finditer(r"([A-Za-z_]\w*)\s*\(", e):
                    if cm.group(1) not in ASSERT_PURE_CALLS:
                        bad.append("%s: assert calls %s()" % (f, cm.group(1)))
            for m in _re.finditer(r"#\s*ifndef\s+NDEBUG(.*?)#\s*endif", open(os.path.join(dp, f)).read(), _re.S):
                blk = extract.blank_comments_and_strings(m.group(1))
                stripped = _re.sub(r"\bassert\s*\((?:[^()]|\([^()]*\))*\)\s*;", "", blk)
                stripped = _re.sub(r"for\s*\(\s*std::size_t\s+\w+\s*=\s*0\s*;[^;]*;[^)]*\)\s*\{\s*\}", "", stripped)
                if stripped.strip():
                    bad.append("%s: #ifndef NDEBUG block contains code other than assertion loops: %r" % (f, " ".join(stripped.split())[:120]))
    return {"name": "debug-and-release-differ-only-in-pure-assertions", "status": "violated" if bad else "holds",
            "tool": "syntactic scan of the headers (tools/props.py)", "cmd": "",
            "detail": ("; ".join(bad))[:600] if bad else "%d assert expressions scanned: no assignment, ++/--, or impure call; #ifndef NDEBUG blocks contain only assertion loops" % n,
            "obligation": "assert-purity"}


def static_fact_hidden_state(tier, scratch):
    bad = []
    root = os.path.join(extract.REPO, "lib/core/covfie/core")
    for dp, dn, fn in os.walk(root):
        for f in fn:
            if not f.endswith(".hpp"):
                continue
            text = extract.blank_comments_and_strings(open(os.path.join(dp, f)).read())
            for i, line in enumerate(text.split("\n"), 1):
                if _re.search(r"\b(thread_local|mutable)\b", line):
                    bad.append("%s:%d %s" % (f, i, line.strip()[:80]))
                m = _re.search(r"\bstatic\b(?!\s*(constexpr|inline\s+constexpr|_assert|_cast))", line)
                if m and not _re.search(r"static\s+[\w:<>,\s\*&\[\]]*\(|static\s+constexpr|static_assert|static_cast|COVFIE_DEVICE\s+static|static\s+(std::|owning_data_t|void|std::size_t|matrix|affine|auto)", line):
                    bad.append("%s:%d %s" % (f, i, line.strip()[:80]))
    return {"name": "no-static-threadlocal-mutable-state", "status": "violated" if bad else "holds",
            "tool": "keyword scan of the headers (tools/props.py)", "cmd": "",
            "detail": ("; ".join(bad))[:600] if bad else "no mutable / thread_local members and no non-constexpr static data in lib/core/covfie/core",
            "obligation": "hidden-state"}


def cells_C15(tier, consts):
    return _both_flavours(sweep_cells(tier, consts))


PROPS["C15"] = {
    "level_text": "every function under contract is verified in an assertion-enabled and an NDEBUG flavour, under its contract precondition, against CBMC's undefined-behaviour obligations (array bounds, pointer validity and arithmetic, signed overflow, undefined shifts, division by zero), the library's own asserts (debug flavour), and 'a value-returning function returns' (postconditions on the result); debug and release texts differ only in side-effect-free assertions, so discharged asserts imply identical results",
    "level_note": "functions that are not extracted (constructors other than the array's, defaulted members, field_view, nd_map, parameter packs) are covered only by the g++ -Wreturn-type static fact; uninitialised reads are covered where a contract states the result is a function of the inputs; 'randomly generated programs' are not generated: the quantifier is met function by function",
    "design_ref": "DESIGN.md section 5 (C15)",
    "cells": cells_C15, "consts": True,
    "static_facts": lambda tier, scratch: [static_fact_return_type(tier, scratch), static_fact_assert_purity(tier, scratch)],
    "explanation": "UB obligations of every extracted function in both build flavours",
    "trusted_base": ["CBMC's instrumentation of --bounds-check --pointer-check --signed-overflow-check --undefined-shift-check --div-by-zero-check --pointer-overflow-check"],
    "assumptions": ["supporting static facts (g++ -Wreturn-type, syntactic assert-purity scan) are reported as such and are not counted as obligations"],
    "not_covered": ["code that is not extracted", "CUDA code"],
}


def cells_C16(tier, consts):
    return [c for c in _both_flavours(sweep_cells(tier, consts, lookups_only=True)) if c.flavour == "ndebug" or tier == "thorough"]


PROPS["C16"] = {
    "level_text": "race freedom by frame conditions, not by exploring schedules: every extracted lookup (at() of every layer, the index functions, adjust/shuffle/at_helper/_backend_index_helper) is proved to assign nothing but its own locals (dfcc assigns-clause obligations; the abstract backend's ghosts excepted) and its result is proved to be a function of its inputs (functional postconditions); two executions that write nothing cannot race and see the same values; writes through views to distinct coordinates touch distinct elements (C01 injectivity + array element disjointness)",
    "level_note": "assumes the C++ memory model's definition of a data race; views are copied member-wise; non-extracted glue is const; function-local statics are hoisted by rule R18 so that dfcc checks them",
    "design_ref": "DESIGN.md section 5 (C16)",
    "cells": cells_C16, "consts": True,
    "static_facts": lambda tier, scratch: [static_fact_hidden_state(tier, scratch)],
    "explanation": "frame conditions of every lookup",
    "trusted_base": ["goto-instrument --dfcc frame-condition instrumentation"],
    "assumptions": ["no schedule is explored; data-race freedom follows from 'no writes' + the C++ memory model"],
    "not_covered": ["threads writing to the same coordinate", "non-extracted code"],
}


# ------------------------------------------------------------------ C05
def cells_C05(tier, consts):
    cells = []
    for n, m, t in ((1, 2, "float"), (2, 3, "float"), (3, 1, "double"), (3, 3, "float"), (4, 2, "float")):
        for sty in (("size_t",) if tier == "quick" else ("size_t", "unsigned")):
            d = {"COPY_LAYER": 2, "DIMS_IN": n, "DIMS_OUT": m, "OUT_SCALAR_T": t, "IN_SCALAR_T": sty, "VERIF_USE_BMI2": 1}
            cells.append(Cell("copy.morton.elem.N%d.M%d.%s" % (n, m, sty), "copy@L=2,N=%d" % n, "h_morton_copy_elem", defines=d, enforce="morton_copy_elem",
                              replace=["morton_calculate_index"], unwind=6, object_bits=10, backends=(("sat", 600), ("cadical", 600)),
                              closes_loops="unwinding to the template constants N, M (complete)",
                              note="destination of 2^(kN) cells with symbolic k; ghost cell G and component q", replay="copy"))
    for n, m, t in ((1, 2, "float"), (2, 3, "float"), (3, 1, "double"), (3, 3, "float")):
        d = {"COPY_LAYER": 1, "DIMS_IN": n, "DIMS_OUT": m, "OUT_SCALAR_T": t}
        cells.append(Cell("copy.strided.elem.N%d.M%d" % (n, m), "copy@L=1,N=%d" % n, "h_strided_copy_elem", defines=d, enforce="strided_copy_elem",
                          unwind=6, object_bits=10, backends=(("sat", 600), ("cadical", 600)), kind="bounded", bound="every extent <= 16 (row-major bound is nonlinear, see C01)",
                          closes_loops="unwinding to the template constants N, M (complete)", replay="copy"))
    for k in range(0, 5 if tier == "quick" else 7):
        for m, t in ((1, "float"), (3, "double")):
            if k == 6 and m == 3:
                continue      # measured: sat times out after 600 s, cadical exhausts the 10 GB cap
            d = {"COPY_LAYER": 3, "DIMS_IN": 2, "DIMS_OUT": m, "OUT_SCALAR_T": t, "HILBERT_K": k}
            cells.append(Cell("copy.hilbert.elem.k%d.M%d" % (k, m), "copy@L=3,N=2", "h_hilbert_copy_elem", defines=d, enforce="hilbert_copy_elem",
                              unwind=max(k + 2, 4), object_bits=12, backends=(("sat", 600), ("cadical", 600)), kind="bounded",
                              bound="curve order k = %d (every extent vector with that power-of-two hull)" % k,
                              closes_loops="unwinding to k+1, N, M (complete for this cell)", replay="copy"))
    # allocation sizes and index maps the conversions rely on (same contracts as the lookups)
    cells += morton_cells(tier, ["alloc"])
    cells += [c for c in strided_cells(tier, ["alloc"])]
    cells += [c for c in hilbert_cells(tier, ["alloc"], kmax_quick=8)]
    return cells


PROPS["C05"] = {
    "level_text": "the per-element bodies of make_morton_copy and make_strided_copy (the nd_map callbacks) are proved to write exactly res[index_L(t)][0..M) := src(t) and to leave every other cell untouched, with index_L the same contract as the layer's lookup (conversions write where lookups read), for N and M independent; the allocation-size expressions of all three storage orders are proved to produce the cell count the lookups' representation invariant needs",
    "level_note": "ASSUMED, not proved: nd_map visits every tuple of the box exactly once (C19, not applicable); the pass-through converting constructors of linear / nearest_neighbour / affine and field(const field<other>&) copy member-wise; the Hilbert callback is covered per curve order k (bounded); CUDA device arrays are out of reach. The whole-conversion statement follows from the per-element obligations by induction over nd_map's visit order under those assumptions",
    "design_ref": "DESIGN.md section 5 (C05)",
    "cells": cells_C05, "consts": True,
    "explanation": "per-element conversion bodies against the lookup's index contract",
    "trusted_base": ["abstract source-field stub (contracts/copy.h)"],
    "assumptions": ["nd_map visits each tuple of the box exactly once (C19)", "wrapper layers' converting constructors copy member-wise"],
    "not_covered": ["field-level converting constructors", "CUDA"],
}


# ------------------------------------------------------------------ C09
def cells_C09(tier, consts):
    cells = []
    combos = [(1, "unsigned"), (2, "float"), (2, "unsigned"), (3, "unsigned"), (3, "double"), (4, "unsigned")] if tier == "quick" else \
             [(n, t) for n in (1, 2, 3, 4) for t in ("unsigned", "float", "double") if not (n == 4 and t != "unsigned")]
    if tier == "thorough":
        combos = combos + [(2, "uint8_t")]
    for n, t in combos:
        d = {"DIMS_IN": n, "AT": t, "DIMS_OUT": 2 if n != 2 else 3, "OUT_SCALAR_T": "float"}
        cl = "unwinding to the template constants N, N+1 (complete)"
        be = (("cvc5", 300), ("cadical", 600))   # cvc5's FP/BV theories see the structural identity at once; SAT has to prove multiplier circuits equivalent
        def C(name, h, enforce=None, replace=()):
            opt = name == "lemma_compose"
            cells.append(Cell("affine.%s.N%d.%s" % (name, n, t), "affine", h, defines=d, enforce=enforce, replace=list(replace), unwind=8,
                              backends=be, closes_loops=cl, object_bits=12, optional=opt,
                              note="all values of T; lemmas in the ring of unsigned (mod 2^32)", replay="affine"))
        if t == "uint8_t":
            C("lemma_compose", "h_lemma_compose", None, ["affine_mul", "affine_apply"])
            C("mul", "h_affine_mul", "affine_mul", ["mat_mul_b"])
            C("apply", "h_affine_apply", "affine_apply", ["mat_mul_a"])
            continue
        if t in ("float", "double"):
            # arithmetic-free functions only: a bit-exact float contract for the products would flag a harmless change of
            # summation order, and an order-insensitive one (exact small-integer sub-domain) is not decided by any back end
            C("identity", "h_mat_identity", "mat_identity")
            C("translation", "h_affine_translation", "affine_translation", ["mat_identity"])
            C("scaling", "h_affine_scaling", "affine_scaling", ["mat_identity"])
            continue
        C("mat_mul_a", "h_mat_mul_a", "mat_mul_a")
        C("mat_mul_b", "h_mat_mul_b", "mat_mul_b")
        C("identity", "h_mat_identity", "mat_identity")
        C("apply", "h_affine_apply", "affine_apply", ["mat_mul_a"])
        C("mul", "h_affine_mul", "affine_mul", ["mat_mul_b"])
        C("translation", "h_affine_translation", "affine_translation", ["mat_identity"])
        C("scaling", "h_affine_scaling", "affine_scaling", ["mat_identity"])
        C("at", "h_affine_at", "affine_at", ["affine_apply"])
        if t == "unsigned":
            if tier == "thorough":
                C("lemma_compose", "h_lemma_compose", None, ["affine_mul", "affine_apply"])   # recorded attempt (cubic ring identity: undecided in the probes)
            if n <= 3:   # N=4: cvc5 exhausts memory, cadical times out
                C("lemma_factories", "h_lemma_factories", None, ["affine_translation", "affine_scaling", "mat_identity", "affine_apply"])
    return cells


PROPS["C09"] = {
    "level_text": "matrix product, identity, affine*vector, affine*affine, translation, scaling and the affine layer's lookup proved against the textbook formulas on the unsigned instantiation of the same template text (arithmetic modulo 2^32 is a commutative ring: the contracts are insensitive to summation order, and cvc5 decides them for all values), N=1..4; identity / translation / scaling also for float and double; the product of two transforms is proved to be the composition matrix (A*B)_ij = sum_k A_ik B_kj + [j=N] A_iN, i.e. apply the right factor and then the left; lemmas over the contracts in the ring of unsigned: translation(t)*v == v+t, scaling(s)*v == s.v, identity*v == v; the layer queries its backend exactly once at A x + t",
    "level_note": "the mechanised lemma (A*B)*v == A*(B*v) is a cubic ring identity that no installed back end decides (cvc5, cadical; also at the 8-bit instantiation): it is a recorded, optional attempt in the thorough tier and is NOT counted; float/double products are NOT put under a bit-exact contract (it would flag harmless reorderings of the summation; the order-insensitive exact-sub-domain form is undecided by every back end) -- the float-specific half of C09 (within rounding) is not decided; no rounding-error bound is claimed; the unsigned instantiation is the same template text with T=unsigned (arithmetic modulo 2^32: a commutative ring, no undefined overflow); matrix operator()/operator* rewritten by rule R17",
    "design_ref": "DESIGN.md section 5 (C09)",
    "cells": cells_C09, "consts": False,
    "explanation": "affine algebra on the exact small-integer sub-domain",
    "trusted_base": ["rule R17 (matrix element access / operator* rewriting)", "CBMC's float model"],
    "assumptions": ["entries are integers with |x| <= 16 (matrices) / 2048 (vectors)"],
    "not_covered": ["bounded relative error over arbitrary finite floats", "the affine layer's serialiser"],
}
