#!/usr/bin/env python3
"""
goto-cc / goto-instrument (dfcc) / cbmc pipeline for one cell, with a back-end
portfolio, log scanning, and result parsing.  Undecided outcomes (timeouts,
tool errors) are reported as such and never as violations.
"""
import json
import os
import re
import resource
import subprocess
import time

MEM_LIMIT_GB = int(os.environ.get("VERIF_MEM_GB", "10"))

BACKENDS = {
    "sat": [],
    "cadical": ["--sat-solver", "cadical"],
    "kissat": ["--external-sat-solver", "kissat"],
    "cvc5": ["--cvc5"],
    "z3": ["--z3"],
}

DEFAULT_CHECKS = [
    "--bounds-check", "--pointer-check", "--div-by-zero-check",
    "--signed-overflow-check", "--undefined-shift-check",
    "--pointer-overflow-check",
]

REACH_DESC = "verif-reach-canary"


class Cell:
    def __init__(self, id, unit, entry, defines=None, enforce=None, replace=(),
                 loop_contracts=False, unwindset=(), unwind=None, checks=None,
                 extra_checks=(), backends=(("sat", 120),), object_bits=None,
                 kind="proof", bound=None, note="", flavour="debug",
                 expect_fail=(), closes_loops="", replay=None, group=None,
                 no_checks=(), nondet_static=False, malloc_may_fail=False, optional=False, fallback=None, trace_extra=(), split=0, heavy=None):
        self.id = id
        self.unit = unit
        self.entry = entry
        self.defines = dict(defines or {})
        self.enforce = enforce
        self.replace = list(replace)
        self.loop_contracts = loop_contracts
        self.unwindset = list(unwindset)
        self.unwind = unwind
        self.checks = list(DEFAULT_CHECKS if checks is None else checks) + list(extra_checks)
        self.checks = [c for c in self.checks if c not in no_checks]
        self.backends = list(backends)
        self.object_bits = object_bits
        self.kind = kind            # 'proof' or 'bounded'
        self.bound = bound
        self.note = note
        self.flavour = flavour      # 'debug' or 'ndebug'
        self.expect_fail = list(expect_fail)
        self.closes_loops = closes_loops
        self.replay = replay
        self.group = group
        self.malloc_may_fail = malloc_may_fail
        self.optional = optional
        self.heavy = optional if heavy is None else heavy   # solver runs of several GB: system-wide limited
        self.fallback = fallback
        self.trace_extra = tuple(trace_extra)
        self.split = split   # >0: decide the obligations in that many parallel cbmc processes (--property groups)


def _limits():
    lim = MEM_LIMIT_GB * (1 << 30)
    resource.setrlimit(resource.RLIMIT_AS, (lim, lim))
    try:   # a killed check must not leave solver processes behind: PR_SET_PDEATHSIG = 1
        import ctypes, signal
        ctypes.CDLL("libc.so.6", use_errno=True).prctl(1, signal.SIGKILL)
    except Exception:
        pass


# Global limits on concurrently running solver processes: every cbmc run takes one of SOLVER_SLOTS; the runs of
# cells decided in split mode (the large ones: several GB each) also take one of HEAVY_SLOTS, so that the memory
# cap per process (MEM_LIMIT_GB) times the number of large processes stays below the machine's memory.  A run waits
# for its slot *before* its timeout starts.
import threading
SOLVER_SLOTS = threading.BoundedSemaphore(int(os.environ.get("VERIF_SOLVER_SLOTS", "16")))


class FileSlots:
    """System-wide counting semaphore (flock on N slot files, created on demand): the large solver runs of all
    check processes running at the same time share it, so several checks started in parallel do not exhaust memory."""

    def __init__(self, n, name):
        self.n = n
        self.dir = os.path.join(os.environ.get("VERIF_SLOT_DIR", "/var/tmp"), "covfie-verif-slots")
        self.name = name
        self.local = threading.local()

    def __enter__(self):
        import fcntl
        os.makedirs(self.dir, exist_ok=True)
        while True:
            for i in range(self.n):
                try:
                    fd = os.open(os.path.join(self.dir, "%s.%d" % (self.name, i)), os.O_CREAT | os.O_RDWR, 0o666)
                except OSError:
                    continue
                try:
                    fcntl.flock(fd, fcntl.LOCK_EX | fcntl.LOCK_NB)
                    self.local.fd = fd
                    return self
                except OSError:
                    os.close(fd)
            time.sleep(0.5)

    def __exit__(self, *a):
        os.close(self.local.fd)
        return False


HEAVY_SLOTS = FileSlots(int(os.environ.get("VERIF_HEAVY_SLOTS", "4")), "heavy")


def run(cmd, timeout, cwd=None, stdout_path=None, slot=None):
    if slot == "heavy":
        with HEAVY_SLOTS:
            with SOLVER_SLOTS:
                return run(cmd, timeout, cwd, stdout_path)
    if slot == "solver":
        with SOLVER_SLOTS:
            return run(cmd, timeout, cwd, stdout_path)
    t0 = time.time()
    try:
        if stdout_path:
            with open(stdout_path, "wb") as fo:
                p = subprocess.run(cmd, stdout=fo, stderr=subprocess.PIPE, timeout=timeout,
                                   cwd=cwd, preexec_fn=_limits)
            out = b""
        else:
            p = subprocess.run(cmd, stdout=subprocess.PIPE, stderr=subprocess.PIPE,
                               timeout=timeout, cwd=cwd, preexec_fn=_limits)
            out = p.stdout
        return p.returncode, out.decode(errors="replace"), p.stderr.decode(errors="replace"), time.time() - t0
    except subprocess.TimeoutExpired as e:
        return None, "", "TIMEOUT after %ss" % timeout, time.time() - t0


def parse_cbmc_json(path):
    """Returns (results, messages, status)."""
    try:
        data = json.load(open(path))
    except Exception as e:
        return None, ["unparsable cbmc output: %s" % e], None
    results = None
    msgs = []
    status = None
    for el in data:
        if "result" in el:
            results = el["result"]
        if "messageText" in el:
            msgs.append(el["messageText"])
        if "cProverStatus" in el:
            status = el["cProverStatus"]
    return results, msgs, status


def parse_cbmc_text(path):
    """cbmc's plain-text result list -> (results, messages, status); results None unless the list is complete."""
    try:
        lines = open(path, errors="replace").read().splitlines()
    except Exception as e:
        return None, ["unreadable cbmc output: %s" % e], None
    results, msgs, status = [], [], None
    in_results, complete = False, False
    cur_file, cur_fn = "", ""
    for ln in lines:
        if ln.startswith("** Results:"):
            in_results = True
            continue
        if re.match(r"^\*\* \d+ of \d+ failed", ln):
            complete = True
            in_results = False
            continue
        if ln.startswith("VERIFICATION SUCCESSFUL"):
            status = "success"
        elif ln.startswith("VERIFICATION FAILED"):
            status = "failure"
        if in_results:
            m = re.match(r"^\[([^\]]+)\] (?:line (\d+) )?(.*): (SUCCESS|FAILURE|UNKNOWN|ERROR|NOT_REACHABLE|NOT_CHECKED|UNREACHABLE)\s*$", ln)
            if m:
                results.append({"property": m.group(1), "description": m.group(3), "status": m.group(4),
                                "sourceLocation": {"file": cur_file, "function": cur_fn, "line": m.group(2) or ""}})
                continue
            m = re.match(r"^(\S.*) function (\S+)\s*$", ln)
            if m:
                cur_file, cur_fn = m.group(1), m.group(2)
                continue
        if re.search(r"ignoring|Parse Error|returned error|Out of memory|unwinding", ln) and not in_results:
            msgs.append(ln)
    if not complete or status is None:
        return None, ["incomplete cbmc output"] + lines[-3:], None
    return results, msgs, status


TIMINGS = []


def run_split(cmd, tmo, workdir, be, ngroups, slot="solver"):
    """Lists the obligations (--show-properties) and decides them in parallel cbmc processes, each restricted
    to a group by --property.  Returns (rc, results, msgs, seconds); rc None = some group timed out."""
    import concurrent.futures as cf
    t0 = time.time()
    lp = os.path.join(workdir, "props.%s.json" % be)
    rc, out, err, dt = run([c for c in cmd if c != "--trace"] + ["--show-properties"], 300, stdout_path=lp)
    try:
        data = json.load(open(lp))
    except Exception as e:
        return 1, None, ["cannot list properties: %s" % e], time.time() - t0
    names = []
    for el in data:
        if "properties" in el:
            names = [p["name"] for p in el["properties"]]
    if not names:
        return 1, None, ["no properties listed"], time.time() - t0
    # hard obligations (post-conditions, loop invariants) get their own group; the rest is chunked
    hard = [n for n in names if re.search(r"postcondition|loop_invariant|loop_decreases|assertion", n)]
    easy = [n for n in names if n not in hard]
    groups = [[h] for h in hard]
    k = max(1, ngroups)
    chunk = max(1, (len(easy) + k - 1) // k)
    groups += [easy[i:i + chunk] for i in range(0, len(easy), chunk)]

    def one(idx_g):
        idx, g = idx_g
        outp = os.path.join(workdir, "cbmc.%s.g%d.json" % (be, idx))
        # first in plain-text mode without a trace: with --json-ui cbmc builds the error trace of every failed property,
        # and the trace of the always-failing reach canary alone can exhaust the memory cap; a group with a genuine
        # failure is run again with --json-ui --trace for the counterexample
        c = [x for x in cmd if x not in ("--trace", "--json-ui")]
        for n in g:
            c += ["--property", n]
        outp = outp[:-5] + ".txt"
        rc, out, err, dt = run(c, tmo, stdout_path=outp, slot=slot)
        TIMINGS.append((round(dt, 1), g[0], len(g)))
        if rc is None:
            return None, g, ["timeout on " + ",".join(g[:3])]
        if rc not in (0, 10):
            # cbmc aborted (out of memory, internal error): whatever it printed is not a verdict
            return None, g, ["cbmc exit code %s on group %s" % (rc, ",".join(g[:2]))]
        results, msgs, status = parse_cbmc_text(outp)
        if results is not None and any(
                r["property"] in g and r.get("status") == "FAILURE" and REACH_DESC not in r.get("description", "")
                for r in results):
            outp2 = outp[:-4] + ".trace.json"
            c2 = list(cmd) + (["--trace"] if "--trace" not in cmd else [])
            for n in g:
                c2 += ["--property", n]
            rc2, out2, err2, dt2 = run(c2, tmo, stdout_path=outp2, slot=slot)
            if rc2 in (0, 10):
                results2, msgs2, status2 = parse_cbmc_json(outp2)
                if results2 is not None:
                    return results2, g, msgs2
        return results, g, msgs

    allres, allmsgs, timed_out = [], [], []
    with cf.ThreadPoolExecutor(max_workers=ngroups) as ex:
        for results, g, msgs in ex.map(one, list(enumerate(groups))):
            if results is None:
                timed_out += msgs
            else:
                allres += [r for r in results if r["property"] in g]
                allmsgs += [m for m in msgs if re.search(r"ignoring|Parse Error|returned error", m)]
    if timed_out:
        return None, None, timed_out, time.time() - t0
    return 0, allres, allmsgs, time.time() - t0


def run_cell(cell, unit_c_path, workdir, log):
    """Returns dict: status in {'pass','refuted','undecided'}, obligations, ... """
    os.makedirs(workdir, exist_ok=True)
    res = {
        "cell": cell.id, "unit": cell.unit, "entry": cell.entry, "kind": cell.kind,
        "flavour": cell.flavour, "defines": cell.defines, "status": "undecided",
        "obligations": 0, "discharged": 0, "failed": [], "backend": None,
        "solver_s": 0.0, "wall_s": 0.0, "reason": "", "attempts": [],
        "loop_contract_obligations": 0, "bound": cell.bound, "note": cell.note,
        "enforce": cell.enforce, "replace": cell.replace,
        "closes_loops": cell.closes_loops,
    }
    t00 = time.time()
    gb0 = os.path.join(workdir, "a.gb")
    defs = ["-D%s=%s" % (k, v) if v is not None else "-D%s" % k for k, v in cell.defines.items()]
    if cell.flavour == "ndebug":
        defs.append("-DNDEBUG")
    cmd = ["goto-cc", "-std=gnu11"] + defs + [unit_c_path, "--function", cell.entry, "-o", gb0]
    rc, out, err, dt = run(cmd, 120)
    res["cmds"] = [" ".join(cmd)]
    if rc != 0:
        res["reason"] = "goto-cc failed (C unit does not compile): " + (err or out)[-1500:]
        res["wall_s"] = time.time() - t00
        return res
    cur = gb0
    if cell.unwindset and (cell.enforce or cell.loop_contracts):
        nxt = os.path.join(workdir, "a1.gb")
        cmd = ["goto-instrument"]
        for u in cell.unwindset:
            cmd += ["--unwindset", u]
        cmd += ["--unwinding-assertions", cur, nxt]
        rc, out, err, dt = run(cmd, 300)
        res["cmds"].append(" ".join(cmd))
        if rc != 0:
            res["reason"] = "goto-instrument unwindset failed: " + (err or out)[-1500:]
            res["wall_s"] = time.time() - t00
            return res
        cur = nxt
    if cell.enforce or cell.replace or cell.loop_contracts:
        nxt = os.path.join(workdir, "b.gb")
        cmd = ["goto-instrument", "--dfcc", cell.entry]
        if cell.enforce:
            cmd += ["--enforce-contract", cell.enforce]
        for r in cell.replace:
            cmd += ["--replace-call-with-contract", r]
        if cell.loop_contracts:
            cmd += ["--apply-loop-contracts"]
        if not cell.malloc_may_fail:
            cmd += ["--no-malloc-may-fail"]   # dfcc links the C library model at this stage
        cmd += [cur, nxt]
        rc, out, err, dt = run(cmd, 600)
        res["cmds"].append(" ".join(cmd))
        if rc != 0:
            res["reason"] = "goto-instrument --dfcc failed: " + (err or out)[-2500:]
            res["wall_s"] = time.time() - t00
            return res
        cur = nxt
    base = ["cbmc", cur, "--json-ui", "--trace", "--no-standard-checks", "--drop-unused-functions"] + cell.checks
    if not cell.malloc_may_fail:
        base += ["--no-malloc-may-fail"]
    if cell.unwind is not None:
        base += ["--unwind", str(cell.unwind), "--unwinding-assertions"]
    elif cell.unwindset and not (cell.enforce or cell.loop_contracts):
        for u in cell.unwindset:
            base += ["--unwindset", u]
        base += ["--unwinding-assertions"]
    if cell.object_bits:
        base += ["--object-bits", str(cell.object_bits)]
    for be, tmo in cell.backends:
        cmd = base + BACKENDS[be]
        outp = os.path.join(workdir, "cbmc.%s.json" % be)
        if cell.split:
            rc, results, msgs, dt = run_split(cmd, tmo, workdir, be, cell.split, "heavy" if cell.heavy else "solver")
            att = {"backend": be, "timeout_s": tmo, "seconds": round(dt, 2), "rc": rc, "split": cell.split}
            res["cmds"].append(" ".join(cmd) + "   [obligations decided in %d parallel --property groups]" % cell.split)
            if rc is None:
                att["outcome"] = "timeout (in at least one property group: %s)" % "; ".join(msgs)[:300]
                res["attempts"].append(att)
                continue
            joined = "\n".join(msgs)
        else:
            rc, out, err, dt = run(cmd, tmo, stdout_path=outp, slot="heavy" if cell.heavy else "solver")
            att = {"backend": be, "timeout_s": tmo, "seconds": round(dt, 2), "rc": rc}
            res["cmds"].append(" ".join(cmd))
            if rc is None:
                att["outcome"] = "timeout"
                res["attempts"].append(att)
                continue
            results, msgs, status = parse_cbmc_json(outp)
            joined = "\n".join(msgs)
            if rc not in (0, 10):
                results = None   # cbmc aborted (internal error / out of memory): whatever it printed is not a verdict
        if results is None:
            att["outcome"] = "error: " + " | ".join((joined or err).strip().splitlines()[-2:])[-400:]
            res["attempts"].append(att)
            continue
        if re.search(r"ignoring (forall|exists)", joined) or "Parse Error" in joined or "SMT2 solver returned error" in joined:
            att["outcome"] = "unreliable: quantifier ignored or SMT parse error"
            res["attempts"].append(att)
            continue
        real = [r for r in results if REACH_DESC not in r.get("description", "")]
        reach = [r for r in results if REACH_DESC in r.get("description", "")]
        failed = [r for r in real if r["status"] != "SUCCESS"]
        unknown = [r for r in failed if r["status"] not in ("FAILURE",)]
        att["outcome"] = "decided"
        res["attempts"].append(att)
        res["backend"] = be
        res["solver_s"] = round(dt, 2)
        res["obligations"] = len(real)
        res["discharged"] = len(real) - len(failed)
        res["loop_contract_obligations"] = len([r for r in real if re.search(r"loop_invariant_(base|step)|loop invariant", r.get("property", "") + r.get("description", ""))])
        res["sample_obligations"] = [{"property": r["property"], "description": r["description"], "status": r["status"]} for r in real[:3] + real[-3:]]
        res["all_obligations"] = [[r["property"], r["description"], r["status"]] for r in real]
        # vacuity: the reachability canary must be present and FAIL
        if not reach:
            res["status"] = "undecided"
            res["reason"] = "harness has no reachability canary"
        elif any(r["status"] == "SUCCESS" for r in reach):
            res["status"] = "undecided"
            res["reason"] = "VACUOUS: reachability canary not reachable (contradictory precondition or harness)"
        elif len(real) == 0:
            res["status"] = "undecided"
            res["reason"] = "VACUOUS: zero obligations generated"
        elif failed:
            res["status"] = "refuted"
            res["failed"] = [{"property": r["property"], "description": r["description"],
                              "status": r["status"],
                              "location": r.get("sourceLocation", {}),
                              "trace": r.get("trace", [])} for r in failed]
        else:
            res["status"] = "pass"
        if cell.enforce and res["status"] == "pass" and not any(r["property"].startswith(cell.enforce + ".postcondition") for r in real):
            res["status"] = "undecided"
            res["reason"] = "VACUOUS: contract of %s enforced but no postcondition obligation was generated" % cell.enforce
        if cell.loop_contracts and res["loop_contract_obligations"] == 0 and res["status"] == "pass":
            res["status"] = "undecided"
            res["reason"] = "loop contract expected but no loop_invariant obligations present (contract silently dropped)"
        break
    else:
        res["reason"] = "all back ends undecided: " + "; ".join("%s:%s" % (a["backend"], a["outcome"]) for a in res["attempts"])
    res["wall_s"] = round(time.time() - t00, 2)
    return res


LOOP_OBLIG = re.compile(r"loop_invariant_(base|step)|loop_decreases|loop_assigns|loop_step_unwinding|\.assigns\.")


def run_cell_with_fallback(cell, unit_c_path, workdir, log):
    """DESIGN 4.6: if only loop-contract obligations fail and the cell has a fallback that closes
    the same loops by complete unwinding to the type-width bound, the fallback decides."""
    r = run_cell(cell, unit_c_path, workdir, log)
    if cell.fallback is not None and (
            (r["status"] == "refuted" and all(LOOP_OBLIG.search(f["property"]) for f in r["failed"]))
            or (r["status"] == "undecided" and "goto-cc failed" in r.get("reason", ""))):
        first = r
        r = run_cell(cell.fallback, unit_c_path, workdir + ".fallback", log)
        r["cell"] = cell.id
        r["note"] = (r.get("note") or "") + " [loop contract not inductive or not compilable on this tree (%s); decided by complete unwinding instead]" % (
            ", ".join(f["property"] for f in first.get("failed", [])) or first.get("reason", "")[:200])
    return r


def _flatten(name, v, out):
    if not isinstance(v, dict):
        return
    if "members" in v:
        for m in v["members"]:
            _flatten(name + "." + m["name"], m.get("value"), out)
    elif "elements" in v:
        for e in v["elements"]:
            _flatten("%s[%s]" % (name, e["index"]), e.get("value"), out)
    else:
        out[name] = {"name": v.get("name"), "data": v.get("data"), "binary": v.get("binary"), "type": v.get("type")}


def trace_inputs(trace, prefixes=("in_", "verif_b_result", "verif_ghost", "verif_b_table", "verif_cell_base"), extra=()):
    """Last assignment to each harness input variable (name starts with a prefix), flattened to scalar
    leaves, as bit patterns where cbmc provides them."""
    import re as _re
    vals = {}
    for st in trace:
        if st.get("stepType") != "assignment":
            continue
        lhs = _re.sub(r"\[(\d+)[lu]*\]", r"[\1]", st.get("lhs", ""))
        if lhs in extra:
            _flatten(lhs, st.get("value", {}), vals)
            continue
        if not lhs.startswith(tuple(prefixes)):
            continue
        fn = (st.get("sourceLocation") or {}).get("function", "")
        if fn and not fn.startswith("h_"):
            continue
        _flatten(lhs, st.get("value", {}), vals)
    return vals
