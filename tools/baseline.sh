#!/bin/sh
# Runs the repository's pinned suite (99 gtest cases in two binaries) with no verification guard defined.
set -e
cmake --build /repo/_build
/repo/_build/tests/core/test_core
/repo/_build/tests/cpu/test_cpu
