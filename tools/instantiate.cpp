// Supporting static fact for C15 ("value-returning functions that return nothing"): explicit instantiation of
// the layers (and their nested owning/non-owning data types) so that g++ sees every member function body.
#include <covfie/core/backend/primitive/array.hpp>
#include <covfie/core/backend/primitive/constant.hpp>
#include <covfie/core/backend/primitive/identity.hpp>
#include <covfie/core/backend/transformer/affine.hpp>
#include <covfie/core/backend/transformer/backup.hpp>
#include <covfie/core/backend/transformer/clamp.hpp>
#include <covfie/core/backend/transformer/covariant_cast.hpp>
#include <covfie/core/backend/transformer/dereference.hpp>
#include <covfie/core/backend/transformer/hilbert.hpp>
#include <covfie/core/backend/transformer/linear.hpp>
#include <covfie/core/backend/transformer/morton.hpp>
#include <covfie/core/backend/transformer/nearest_neighbour.hpp>
#include <covfie/core/backend/transformer/shuffle.hpp>
#include <covfie/core/backend/transformer/strided.hpp>
#include <covfie/core/algebra/affine.hpp>
#include <covfie/core/field.hpp>
#include <covfie/core/utility/numeric.hpp>
using namespace covfie;
using arr3 = backend::array<vector::float3>;
using str3 = backend::strided<vector::size3, arr3>;
using mor3 = backend::morton<vector::size3, arr3>;
using hil2 = backend::hilbert<vector::size2, backend::array<vector::float1>>;
template struct backend::array<vector::float3>;
template struct backend::array<vector::double1>::owning_data_t;
template struct backend::strided<vector::size3, arr3>::owning_data_t;
template struct backend::strided<vector::size3, arr3>::non_owning_data_t;
template struct backend::morton<vector::size3, arr3>::owning_data_t;
template struct backend::morton<vector::size3, arr3>::non_owning_data_t;
template struct backend::hilbert<vector::size2, backend::array<vector::float1>>::owning_data_t;
template struct backend::hilbert<vector::size2, backend::array<vector::float1>>::non_owning_data_t;
template struct backend::linear<str3>::non_owning_data_t;
template struct backend::nearest_neighbour<str3>::non_owning_data_t;
template struct backend::identity<vector::float3>::non_owning_data_t;
template struct backend::constant<vector::float3, vector::float3>::non_owning_data_t;
template struct backend::affine<backend::linear<str3>>::non_owning_data_t;
template struct algebra::affine<3, float>;
template struct algebra::matrix<3, 4, float>;
template std::size_t utility::round_pow2<std::size_t>(std::size_t);
template std::size_t utility::ipow<std::size_t>(std::size_t, std::size_t);
int main() { return 0; }
