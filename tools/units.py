#!/usr/bin/env python3
"""Unit registry: recipes for every extracted covfie function."""
from recipe import Fn, Unit

CORE = "lib/core/covfie/core/"
NUMERIC = CORE + "utility/numeric.hpp"

UNITS = {}


def unit(u):
    UNITS[u.name] = u
    return u


# ---------------------------------------------------------------- numeric
fn_round_pow2 = Fn("round_pow2", NUMERIC, ["namespace covfie::utility"], "round_pow2",
                   ret="T", ptypes=["T"])
fn_ipow = Fn("ipow", NUMERIC, ["namespace covfie::utility"], "ipow",
             ret="T", ptypes=["T", "T"])

unit(Unit("numeric", [fn_round_pow2, fn_ipow], "contracts/numeric.h", "lemmas/c18.c"))


def get_unit(name, consts=None):
    """name is 'base' or 'base@k=v,k=v' for units whose extraction depends on template arguments."""
    if name in UNITS:
        return UNITS[name]
    base, _, args = name.partition("@")
    kw = dict(a.split("=") for a in args.split(",")) if args else {}
    return FACTORIES[base](name, consts or {}, **kw)


FACTORIES = {}
