#!/usr/bin/env python3
"""Unit registry: recipes for every extracted covfie function."""
import re
from recipe import Fn, Unit
from extract import ExtractionError

CORE = "lib/core/covfie/core/"
NUMERIC = CORE + "utility/numeric.hpp"

UNITS = {}


def unit(u):
    UNITS[u.name] = u
    return u


# ---------------------------------------------------------------- numeric
fn_round_pow2 = Fn("round_pow2", NUMERIC, ["namespace covfie::utility"], "round_pow2",
                   ret="T", ptypes=["T"])
fn_ipow = Fn("ipow", NUMERIC, ["namespace covfie::utility"], "ipow",
             ret="T", ptypes=["T", "T"])

unit(Unit("numeric", [fn_round_pow2, fn_ipow], "contracts/numeric.h", "lemmas/c18.c"))


# ---------------------------------------------------------------- morton
MORTON = CORE + "backend/transformer/morton.hpp"
COMMON_SUBST = [
    ("typename contravariant_input_t::vector_t::value_type", "IN_SCALAR_T", 0),
    ("typename _input_vector_d::type", "IN_SCALAR_T", 0),
    ("typename _input_vector_t::type", "IN_SCALAR_T", 0),
    ("typename backend_t::contravariant_input_t::scalar_t", "B_IN_SCALAR_T", 0),
    ("typename backend_t::contravariant_input_t::vector_t", "B_IN_VEC_T", 0),
    ("backend_t::contravariant_input_t::dimensions", "DIMS_B_IN", 0),
    ("backend_t::covariant_output_t::dimensions", "DIMS_OUT", 0),
    ("typename covariant_input_t::scalar_t", "OUT_SCALAR_T", 0),
    ("covariant_input_t::dimensions", "DIMS_OUT", 0),
    ("_input_vector_d::size", "DIMS_IN", 0),
    ("typename contravariant_input_t::vector_t", "IN_VEC_T", 0),
    ("typename contravariant_input_t::scalar_t", "IN_SCALAR_T", 0),
    ("typename contravariant_output_t::scalar_t", "B_IN_SCALAR_T", 0),
    ("contravariant_input_t::dimensions", "DIMS_IN", 0),
    ("contravariant_output_t::dimensions", "DIMS_B_IN", 0),
    ("covariant_output_t::dimensions", "DIMS_OUT", 0),
]
MAXEL = (r"\*\s*std::max_element\s*\(\s*(\w+)\.begin\(\)\s*,\s*\1\.end\(\)\s*\)", r"verif_max_element(\1.m_data, DIMS_IN)", 1, True)


def numeric_fns_size_t():
    return [fn_round_pow2, fn_ipow]


def make_morton(name, consts, N="2"):
    n = int(N)
    fns = numeric_fns_size_t()
    fns.append(Fn("morton_pdep_compute", MORTON, ["struct morton_pdep_mask"], "compute",
                  ret="size_t", ptypes=["IN_VEC_T", None], params_hint=r"index_sequence",
                  vec_types=["IN_VEC_T"],
                  fold=("Idxs", list(range(n))),
                  subst_post=[(r"get_mask\s*<\s*(\d+)\s*>\s*::\s*value", r"VERIF_CAT(VERIF_MORTON_MASK_N%d_I\1_, IN_SCALAR_T)" % n, 0, True)]))
    fns.append(Fn("morton_calculate_index", MORTON, ["struct morton"], "calculate_index",
                  ret="size_t", ptypes=["IN_VEC_T"], vec_types=["IN_VEC_T"],
                  subst=COMMON_SUBST + [
                      (r"(?s)morton_pdep_mask\s*<.*?>\s*::\s*compute", "morton_pdep_compute", 0, True),
                      ("use_bmi2", "VERIF_USE_BMI2", 0),
                  ]))
    fns.append(fn_array_at())
    fns.append(Fn("morton_at", MORTON, ["struct morton", "struct non_owning_data_t"], "at",
                  ret="OUT_VEC_PTR_T", ptypes=["IN_VEC_T"], vec_types=["IN_VEC_T"],
                  method="const MORTON_SELF_T *self", members=["m_sizes"], arrays=["m_sizes"],
                  subst=[("configuration_t", "ND_SIZE_T", 0)] + COMMON_SUBST + [("m_storage.at(", "backend_at(", 0), ("calculate_index(", "morton_calculate_index(", 0)]))
    expr_subst = [("utility::ipow", "ipow", 0), ("utility::round_pow2", "round_pow2", 0), ("configuration_t", "ND_SIZE_T", 0), ("calculate_index(", "morton_calculate_index(", 0)] + COMMON_SUBST
    fns.append(Fn("morton_alloc_size_copy", MORTON, ["struct morton"], "make_morton_copy", kind="arg",
                  expr_rx=r"std::make_unique\s*<[^;]*?>\s*(?=\()", ret="size_t", ptypes=["ND_SIZE_T"], pnames=["sizes"], vec_types=["ND_SIZE_T"],
                  subst=expr_subst))
    fns.append(Fn("morton_alloc_size_ctor", MORTON, ["struct morton", "struct owning_data_t"], "owning_data_t", kind="arg",
                  params_hint=r"const\s+T\s*&", expr_in_header=True,
                  expr_rx=r"\bm_storage\s*(?=\()", ret="size_t", ptypes=["ND_SIZE_T"], pnames=["m_sizes"], vec_types=["ND_SIZE_T"],
                  subst=expr_subst))
    return Unit(name, fns, "contracts/morton.h", "lemmas/morton.c",
                stubs=["stubs/backend.h"],
                pre_includes=["stubs/numeric_size_t.h", "contracts/numeric.h", "stubs/pdep.h", "stubs/algorithm.h"])


# ---------------------------------------------------------------- strided
STRIDED = CORE + "backend/transformer/strided.hpp"
ACCUM = (r"(?s)std::accumulate\s*\(\s*std::begin\((\w+)\)\s*,\s*std::end\(\1\)\s*,\s*(.*?),\s*std::multiplies\s*<\s*std::size_t\s*>\s*\(\)\s*\)",
         r"verif_accumulate_mul(\1.m_data, DIMS_IN, \2)", 1, True)


def make_strided(name, consts):
    fns = []
    fns.append(Fn("strided_at", STRIDED, ["struct strided", "struct non_owning_data_t"], "at",
                  ret="OUT_VEC_PTR_T", ptypes=["IN_VEC_T"], vec_types=["IN_VEC_T"],
                  method="const STRIDED_SELF_T *self", members=["m_sizes"], arrays=["m_sizes"],
                  subst=[("configuration_t", "ND_SIZE_T", 0)] + COMMON_SUBST + [(r"m_storage\s*\.\s*at\s*\(\s*\{\s*(\w+)\s*\}\s*\)", r"backend_at(\1)", 0, True)]))
    ssub = [("configuration_t", "ND_SIZE_T", 0)] + COMMON_SUBST
    fns.append(Fn("strided_alloc_size_copy", STRIDED, ["struct strided"], "make_strided_copy", kind="arg",
                  expr_rx=r"std::make_unique\s*<[^;]*?>\s*(?=\()", ret="size_t", ptypes=["ND_SIZE_T"], pnames=["sizes"], vec_types=["ND_SIZE_T"], subst=ssub))
    fns.append(Fn("strided_alloc_size_ctor", STRIDED, ["struct strided", "struct owning_data_t"], "owning_data_t", kind="arg",
                  params_hint=r"const\s+T\s*&", expr_in_header=True,
                  expr_rx=r"\bm_storage\s*(?=\()", ret="size_t", ptypes=["ND_SIZE_T"], pnames=["m_sizes"], vec_types=["ND_SIZE_T"], subst=ssub))
    fns.append(Fn("strided_alloc_size_conf", STRIDED, ["struct strided", "struct owning_data_t"], "owning_data_t", kind="arg",
                  params_hint=r"configuration_t\s+conf", expr_in_header=True,
                  expr_rx=r"\bm_storage\s*(?=\()", ret="size_t", ptypes=["ND_SIZE_T"], pnames=["m_sizes"], vec_types=["ND_SIZE_T"], subst=ssub))
    return Unit(name, fns, "contracts/strided.h", "lemmas/strided.c",
                stubs=["stubs/backend.h"], pre_includes=["stubs/algorithm.h"])


# ---------------------------------------------------------------- hilbert
HILBERT = CORE + "backend/transformer/hilbert.hpp"
HILBERT_SUBST = COMMON_SUBST + [
    ("utility::nd_size<DIMS_IN>", "ND_SIZE_T", 0),
    ("coordinate_t", "IN_VEC_T", 0),
]


def make_hilbert(name, consts):
    fns = numeric_fns_size_t()
    fns.append(Fn("hilbert_rot", HILBERT, ["struct hilbert"], "rot", ret="void",
                  ptypes=["size_t", "size_t *", "size_t *", "size_t", "size_t"]))
    fns.append(Fn("hilbert_calculate_index", HILBERT, ["struct hilbert"], "calculate_index", ret="size_t",
                  ptypes=["IN_VEC_T", "ND_SIZE_T"], vec_types=["IN_VEC_T", "ND_SIZE_T"],
                  subst=HILBERT_SUBST + [("rot(", "hilbert_rot(", 0)]))
    fns.append(Fn("hilbert_at", HILBERT, ["struct hilbert", "struct non_owning_data_t"], "at",
                  ret="OUT_VEC_PTR_T", ptypes=["IN_VEC_T"], vec_types=["IN_VEC_T"],
                  method="const HILBERT_SELF_T *self", members=["m_sizes"], arrays=["m_sizes"],
                  subst=HILBERT_SUBST + [("m_storage.at(", "backend_at(", 0), ("calculate_index(", "hilbert_calculate_index(", 0)]))
    expr_subst = [("utility::ipow", "ipow", 0), ("utility::round_pow2", "round_pow2", 0), ("configuration_t", "ND_SIZE_T", 0)] + COMMON_SUBST
    fns.append(Fn("hilbert_alloc_size_copy", HILBERT, ["struct hilbert"], "make_hilbert_copy", kind="arg",
                  expr_rx=r"std::make_unique\s*<[^;]*?>\s*(?=\()", ret="size_t", ptypes=["ND_SIZE_T"], pnames=["sizes"], vec_types=["ND_SIZE_T"], subst=expr_subst))
    fns.append(Fn("hilbert_alloc_size_ctor", HILBERT, ["struct hilbert", "struct owning_data_t"], "owning_data_t", kind="arg",
                  params_hint=r"const\s+T\s*&", expr_in_header=True,
                  expr_rx=r"\bm_storage\s*(?=\()", ret="size_t", ptypes=["ND_SIZE_T"], pnames=["m_sizes"], vec_types=["ND_SIZE_T"], subst=expr_subst))
    return Unit(name, fns, "contracts/hilbert.h", "lemmas/hilbert.c",
                stubs=["stubs/backend.h"],
                pre_includes=["stubs/numeric_size_t.h", "contracts/numeric.h", "stubs/algorithm.h"])


# ---------------------------------------------------------------- array backend lookup
ARRAYB = CORE + "backend/primitive/array.hpp"


def fn_array_at():
    return Fn("array_at", ARRAYB, ["struct array", "struct non_owning_data_t"], "at",
              ret="OUT_VEC_T *", ptypes=["size_t"], method="const ARRAY_NO_T *self",
              members=["m_size", "m_ptr"], byref_return=True)


def make_array_at(name, consts):
    return Unit(name, [fn_array_at()], "contracts/array_at.h", "lemmas/array_at.c")


# ---------------------------------------------------------------- clamp
CLAMP = CORE + "backend/transformer/clamp.hpp"
LAYER_SUBST = COMMON_SUBST + [
    ("typename covariant_output_t::vector_t", "OUT_VEC_T", 0),
    ("typename contravariant_output_t::vector_t", "B_IN_VEC_T", 0),
    ("typename covariant_output_t::scalar_t", "OUT_SCALAR_T", 0),
]
MKSEQ = (r"(?s),\s*std::make_index_sequence\s*<[^;{}]*?>\s*\{\s*\}", "", 0, True)


def make_clamp(name, consts, N="2"):
    n = int(N)
    fns = []
    fns.append(Fn("clamp_adjust", CLAMP, ["struct clamp", "struct non_owning_data_t"], "adjust",
                  ret="IN_VEC_T", ptypes=["IN_VEC_T", None], vec_types=["IN_VEC_T"],
                  method="const CLAMP_SELF_T *self", members=["m_min", "m_max"], arrays=["m_min", "m_max"],
                  subst=LAYER_SUBST + [("std::clamp(", "verif_std_clamp(", 0)],
                  pack=("Is", list(range(n)), n, "IN_VEC_T")))
    fns.append(Fn("clamp_at", CLAMP, ["struct clamp", "struct non_owning_data_t"], "at",
                  ret="OUT_VEC_T", ptypes=["IN_VEC_T"], vec_types=["IN_VEC_T"],
                  method="const CLAMP_SELF_T *self",
                  subst=LAYER_SUBST + [MKSEQ, ("m_backend.at(", "backend_at(", 0), ("adjust(", "clamp_adjust(self, ", 0)]))
    return Unit(name, fns, "contracts/clamp.h", "lemmas/clamp.c", stubs=["stubs/backend.h"])


# ---------------------------------------------------------------- backup
BACKUP = CORE + "backend/transformer/backup.hpp"


def make_backup(name, consts):
    fns = [Fn("backup_at", BACKUP, ["struct backup", "struct non_owning_data_t"], "at",
              ret="OUT_VEC_T", ptypes=["IN_VEC_T"], vec_types=["IN_VEC_T"],
              method="const BACKUP_SELF_T *self", members=["m_min", "m_max", "m_default"], arrays=["m_min", "m_max"],
              subst=LAYER_SUBST + [("m_backend.at(", "backend_at(", 0)])]
    return Unit(name, fns, "contracts/backup.h", "lemmas/backup.c", stubs=["stubs/backend.h"])


# ---------------------------------------------------------------- nearest neighbour
NN = CORE + "backend/transformer/nearest_neighbour.hpp"


def make_nn(name, consts):
    fns = [Fn("nn_at", NN, ["struct nearest_neighbour", "struct non_owning_data_t"], "at",
              ret="OUT_VEC_T", ptypes=["IN_VEC_T"], vec_types=["IN_VEC_T", "B_IN_VEC_T"],
              method="const NN_SELF_T *self",
              subst=LAYER_SUBST + [("m_backend.at(", "backend_at(", 0)])]
    return Unit(name, fns, "contracts/nn.h", "lemmas/nn.c", stubs=["stubs/backend.h"])


# ---------------------------------------------------------------- binary_io
BINIO = CORE + "utility/binary_io.hpp"
IO_SUBST = [
    (r"\bfs\s*\.\s*read\s*\(", "istream_read(fs, ", 0, True),
    (r"\bfs\s*\.\s*write\s*\(", "ostream_write(fs, ", 0, True),
    (r"\bfs\s*\.\s*good\s*\(\s*\)", "istream_good(fs)", 0, True),
    (r"\bfs\s*\.\s*eof\s*\(\s*\)", "istream_eof(fs)", 0, True),
    (r"\bfs\s*\.\s*fail\s*\(\s*\)", "istream_fail(fs)", 0, True),
    (r"\bfs\s*\.\s*bad\s*\(\s*\)", "istream_bad(fs)", 0, True),
    (r"!\s*fs\b(?!\s*[.(\-])", "istream_fail(fs)", 0, True),
    (r"\bfs\s*\.\s*peek\s*\(\s*\)", "istream_peek(fs)", 0, True),
    (r"std::(?:istream|ios|char_traits\s*<\s*char\s*>)::(?:traits_type::)?eof\s*\(\s*\)", "(-1)", 0, True),
    (r"\bMAGIC_HEADER\b", "verif_magic_header_obj", 0, True),
    (r"\bMAGIC_FOOTER\b", "verif_magic_footer_obj", 0, True),
    (r"\b(?:utility::)?read_binary\s*<\s*uint32_t\s*>\s*\(", "read_binary_u32(", 0, True),
    (r"\b(?:utility::)?read_binary\s*<\s*(?:std::)?uint64_t\s*>\s*\(", "read_binary_u64(", 0, True),
    (r"\b(?:utility::)?read_binary\s*<\s*std::uint32_t\s*>\s*\(", "read_binary_u32(", 0, True),
    (r"\b(?:utility::)?read_binary\s*<\s*float\s*>\s*\(", "read_binary_f32(", 0, True),
    (r"\b(?:utility::)?read_binary\s*<\s*double\s*>\s*\(", "read_binary_f64(", 0, True),
    (r"\b(?:utility::)?read_io_header\s*\(", "read_io_header(", 0, True),
    (r"\b(?:utility::)?read_io_footer\s*\(", "read_io_footer(", 0, True),
    (r"\b(?:utility::)?write_io_header\s*\(", "write_io_header(", 0, True),
    (r"\b(?:utility::)?write_io_footer\s*\(", "write_io_footer(", 0, True),
    (r"\bconst\s+char\s*\*", "const char *", 0, True),
]
MAY_THROW = ["read_binary_u32", "read_binary_u64", "read_binary_f32", "read_binary_f64", "read_io_header", "read_io_footer",
             "read_binary_ndsize", "read_binary_invec", "read_binary_outvec", "read_binary_affine", "backend_read_binary"]


def fn_read_binary(key, ctype):
    return Fn(key, BINIO, ["namespace covfie::utility"], "read_binary", ret=ctype, ptypes=["VERIF_ISTREAM *"],
              subst=[("T", ctype, 0)] + IO_SUBST,
              drop=[r"(?s)static_assert\s*\(.*?\)\s*;"],
              throws=True, dummy_ret="rv")


def binio_fns():
    fns = [fn_read_binary("read_binary_u32", "uint32_t"), fn_read_binary("read_binary_u64", "uint64_t"),
           fn_read_binary("read_binary_f32", "float"), fn_read_binary("read_binary_f64", "double")]
    for nm, st in (("write_io_header", "VERIF_OSTREAM *"), ("write_io_footer", "VERIF_OSTREAM *")):
        fns.append(Fn(nm, BINIO, ["namespace covfie::utility"], nm, ret=st, ptypes=[st, "uint32_t"], subst=IO_SUBST))
    for nm in ("read_io_header", "read_io_footer"):
        fns.append(Fn(nm, BINIO, ["namespace covfie::utility"], nm, ret="VERIF_ISTREAM *", ptypes=["VERIF_ISTREAM *", "uint32_t"],
                      subst=IO_SUBST, throws=True, propagate=MAY_THROW, dummy_ret="fs"))
    return fns


def make_binio(name, consts):
    return Unit(name, binio_fns(), "contracts/binary_io.h", "lemmas/binary_io.c")


# ---------------------------------------------------------------- array backend serialisation
ARRAY_IO_SUBST = IO_SUBST + [
    (r"\bIO_MAGIC_HEADER\b", "verif_tag_array_obj", 0, True),
    (r"(?s)(?:utility::)?read_binary\s*<\s*std::decay_t\s*<\s*decltype\s*\(\s*m_size\s*\)\s*>\s*>\s*\(", "read_binary_u64(", 0, True),
    (r"(?s)(?:utility::)?read_binary\s*<\s*__typeof__\s*\(\s*m_size\s*\)\s*>\s*\(", "read_binary_u64(", 0, True),
    (r"\bauto\s+size\b", "uint64_t size", 0, True),
    (r"(?s)std::unique_ptr\s*<\s*vector_t\s*\[\s*\]\s*>\s*(\w+)\s*=\s*std::make_unique\s*<\s*vector_t\s*\[\s*\]\s*>\s*\(", r"OUT_VEC_T *\1 = verif_make_unique_array(", 0, True),
    (r"(?s)std::make_unique\s*<\s*vector_t\s*\[\s*\]\s*>\s*\(", "verif_make_unique_array(", 0, True),
    (r"(?s)using\s+scalar_t\s*=\s*typename\s+_output_vector_t::type\s*;", "/* alias scalar_t is OUT_SCALAR_T */", 0, True),
    (r"\bscalar_t\b", "OUT_SCALAR_T", 0, True),
    (r"typename\s+_output_vector_t::type", "OUT_SCALAR_T", 0, True),
    (r"_output_vector_t::size", "DIMS_OUT", 0, True),
    (r"(?s)owning_data_t\s*\(\s*(\w+)\s*,\s*std::move\s*\(\s*(\w+)\s*\)\s*\)", r"verif_array_own_ctor(\1, \2)", 0, True),
    (r"(?s)std::\s*is_same_v\s*<\s*OUT_SCALAR_T\s*,\s*float\s*>", "(sizeof(OUT_SCALAR_T) == 4)", 0, True),
    (r"(?s)std::\s*is_same_v\s*<\s*OUT_SCALAR_T\s*,\s*double\s*>", "(sizeof(OUT_SCALAR_T) == 8)", 0, True),
    (r"\bm_ptr\s*\.\s*get\s*\(\s*\)", "m_ptr", 0, True),
    (r"\bvector_t\b", "OUT_VEC_T", 0, True),
]


def array_io_fns():
    fns = binio_fns()
    fns.append(Fn("array_read_binary", ARRAYB, ["struct array", "struct owning_data_t"], "read_binary",
                  ret="ARRAY_OWN_T", ptypes=["VERIF_ISTREAM *"], subst=ARRAY_IO_SUBST, arrays2=["ptr"],
                  throws=True, propagate=MAY_THROW, dummy_ret="((ARRAY_OWN_T){0, 0})"))
    fns.append(Fn("array_write_binary", ARRAYB, ["struct array", "struct owning_data_t"], "write_binary",
                  ret="void", ptypes=["VERIF_OSTREAM *", "const ARRAY_OWN_T *"], subst=ARRAY_IO_SUBST,
                  refparams=["o"], arrays2=["m_ptr"], throws=True, dummy_ret=""))
    return fns


def make_array_io(name, consts):
    return Unit(name, array_io_fns(), "contracts/array_io.h", "lemmas/array_io.c")


# ---------------------------------------------------------------- array ownership operations
OWN_SUBST = [
    (r"(?s)\bm_ptr\s*=\s*std::make_unique\s*<\s*vector_t\s*\[\s*\]\s*>\s*\(([^;]*)\)\s*;", r"verif_unique_ptr_move_assign(&m_ptr, verif_make_unique_array(\1));", 0, True),
    (r"(?s)std::make_unique\s*<\s*vector_t\s*\[\s*\]\s*>\s*\(", "verif_make_unique_array(", 0, True),
    (r"\bm_ptr\s*\.\s*get\s*\(\s*\)", "m_ptr", 0, True),
    (r"\bm_ptr\s*\.\s*release\s*\(\s*\)", "verif_unique_ptr_release(&m_ptr)", 0, True),
    (r"\bm_ptr\s*\.\s*reset\s*\(\s*\)", "verif_unique_ptr_move_assign(&m_ptr, 0)", 0, True),
    (r"(?s)\bm_ptr\s*\.\s*reset\s*\(([^;]*)\)\s*;", r"verif_unique_ptr_move_assign(&m_ptr, \1);", 0, True),
    (r"\bvector_t\b", "OUT_VEC_T", 0, True),
]


def make_array_own(name, consts):
    fns = []
    fns.append(Fn("array_copy_assign", ARRAYB, ["struct array", "struct owning_data_t"], "operator=",
                  params_hint=r"const\s+owning_data_t\s*&", ret="ARRAY_OWN_T *", ptypes=["const ARRAY_OWN_T *"],
                  method="ARRAY_OWN_T *self", members=["m_size", "m_ptr"], refparams=["o"], subst=OWN_SUBST,
                  subst_post=[(r"\breturn\s*\*\s*this\s*;", "return self;", 0, True)]))
    fns.append(Fn("array_copy_ctor", ARRAYB, ["struct array", "struct owning_data_t"], "owning_data_t",
                  params_hint=r"^\s*const\s+owning_data_t\s*&", ret="void", ptypes=["const ARRAY_OWN_T *"], ctor=True,
                  method="ARRAY_OWN_T *self", members=["m_size", "m_ptr"], refparams=["o"], subst=OWN_SUBST))
    ctor_subst = OWN_SUBST + [(r"std::move\s*\(\s*ptr\s*\)", "verif_unique_ptr_take(ptr)", 0, True)]
    fns.append(Fn("array_default_ctor", ARRAYB, ["struct array", "struct owning_data_t"], "owning_data_t", params_hint=r"^\s*$",
                  ret="void", ptypes=[], ctor=True, method="ARRAY_OWN_T *self", members=["m_size", "m_ptr"], subst=ctor_subst))
    fns.append(Fn("array_size_ctor", ARRAYB, ["struct array", "struct owning_data_t"], "owning_data_t", params_hint=r"^\s*std::size_t\s+n\s*$",
                  ret="void", ptypes=["size_t"], ctor=True, method="ARRAY_OWN_T *self", members=["m_size", "m_ptr"], subst=ctor_subst))
    fns.append(Fn("array_adopt_ctor", ARRAYB, ["struct array", "struct owning_data_t"], "owning_data_t", params_hint=r"unique_ptr",
                  ret="void", ptypes=["size_t", "OUT_VEC_T **"], ctor=True, method="ARRAY_OWN_T *self", members=["m_size", "m_ptr"], subst=ctor_subst))
    return Unit(name, fns, "contracts/array_own.h", "lemmas/array_own.c")


# ---------------------------------------------------------------- one-line layers of C02
SHUFFLE = CORE + "backend/transformer/shuffle.hpp"
CAST = CORE + "backend/transformer/covariant_cast.hpp"
DEREF = CORE + "backend/transformer/dereference.hpp"
CONSTANT = CORE + "backend/primitive/constant.hpp"
IDENTITY = CORE + "backend/primitive/identity.hpp"
ARR_AT = (r"\b(\w+)\s*\.\s*at\s*\(\s*(\w+)\s*\)", r"\1.m_data[\2]", 0, True)


def make_shuffle(name, consts, perm="0"):
    pm = [int(x) for x in perm.split("_")]
    n = len(pm)
    fns = [Fn("shuffle_shuffle", SHUFFLE, ["struct shuffle", "struct non_owning_data_t"], "shuffle",
              ret="IN_VEC_T", ptypes=["IN_VEC_T", None], vec_types=["IN_VEC_T"], method="const EMPTY_SELF_T *self",
              subst=LAYER_SUBST, pack=("Is", pm, n, "IN_VEC_T"), subst_post=[ARR_AT]),
           Fn("shuffle_at", SHUFFLE, ["struct shuffle", "struct non_owning_data_t"], "at",
              ret="OUT_VEC_T", ptypes=["IN_VEC_T"], vec_types=["IN_VEC_T"], method="const EMPTY_SELF_T *self",
              subst=LAYER_SUBST + [(r",\s*indices\s*\{\s*\}", "", 0, True), ("m_backend.at(", "backend_at(", 0), ("shuffle(", "shuffle_shuffle(self, ", 0)])]
    return Unit(name, fns, "contracts/simple_layers.h", "lemmas/simple_layers.c", stubs=["stubs/backend.h"])


def cast_index_count(n, m):
    """K = length of the index sequence covariant_cast::at hands to at_helper, READ FROM THE CODE."""
    import extract as X
    loc = X.locate(CAST, ["struct covariant_cast", "struct non_owning_data_t"], "at")
    mm = re.search(r"std::make_index_sequence\s*<\s*([A-Za-z_:\s]+?)\s*>", loc.body)
    if not mm:
        raise X.ExtractionError("covariant_cast::at: index sequence not found")
    arg = "".join(mm.group(1).split())
    if arg == "contravariant_input_t::dimensions":
        return n
    if arg == "covariant_output_t::dimensions":
        return m
    raise X.ExtractionError("covariant_cast::at: unknown index sequence length %r" % arg)


def make_cast(name, consts, N="1", M="1"):
    n, m = int(N), int(M)
    k = cast_index_count(n, m)
    fns = [Fn("cast_at_helper", CAST, ["struct covariant_cast", "struct non_owning_data_t"], "at_helper",
              ret="CAST_VEC_T", ptypes=["IN_VEC_T", None], vec_types=["IN_VEC_T"], method="const EMPTY_SELF_T *self",
              subst=LAYER_SUBST + [("target_type", "CAST_T", 0), ("m_backend.at(", "backend_at(", 0)],
              call_index=["backend_at"], pack=("Is", list(range(k)), m, "CAST_VEC_T")),
           Fn("cast_at", CAST, ["struct covariant_cast", "struct non_owning_data_t"], "at",
              ret="CAST_VEC_T", ptypes=["IN_VEC_T"], vec_types=["IN_VEC_T"], method="const EMPTY_SELF_T *self",
              subst=LAYER_SUBST + [MKSEQ, ("at_helper(", "cast_at_helper(self, ", 0)])]
    return Unit(name, fns, "contracts/simple_layers.h", "lemmas/simple_layers.c", stubs=["stubs/backend.h"])


def make_deref(name, consts):
    fns = [Fn("deref_at", DEREF, ["struct dereference", "struct non_owning_data_t"], "at",
              ret="OUT_VEC_T", ptypes=["IN_VEC_T"], vec_types=["IN_VEC_T"], method="const EMPTY_SELF_T *self",
              subst=LAYER_SUBST + [("m_backend.at(", "backend_at(", 0)])]
    return Unit(name, fns, "contracts/simple_layers.h", "lemmas/simple_layers.c", stubs=["stubs/backend.h"])


def make_constant(name, consts):
    fns = [Fn("constant_at", CONSTANT, ["struct constant", "struct non_owning_data_t"], "at",
              ret="OUT_VEC_T", ptypes=["IN_VEC_T"], vec_types=["IN_VEC_T"], method="const CONSTANT_SELF_T *self",
              members=["m_value"], subst=LAYER_SUBST)]
    return Unit(name, fns, "contracts/simple_layers.h", "lemmas/simple_layers.c", stubs=["stubs/backend.h"])


def make_identity(name, consts):
    fns = [Fn("identity_at", IDENTITY, ["struct identity", "struct non_owning_data_t"], "at",
              ret="IDENT_VEC_T", ptypes=["IN_VEC_T"], vec_types=["IN_VEC_T", "IDENT_VEC_T"], method="const EMPTY_SELF_T *self",
              subst=[("typename covariant_output_t::vector_t", "IDENT_VEC_T", 0)] + LAYER_SUBST)]
    return Unit(name, fns, "contracts/simple_layers.h", "lemmas/simple_layers.c", stubs=["stubs/backend.h"])


# ---------------------------------------------------------------- linear
LINEAR = CORE + "backend/transformer/linear.hpp"
LINEAR_SUBST = [
    (r"typename\s+__typeof__\(\s*m_backend\s*\)\s*::\s*parent_t\s*::\s*contravariant_input_t\s*::\s*scalar_t", "B_IN_SCALAR_T", 0, True),
    (r"std::remove_reference_t\s*<\s*typename\s+covariant_output_t::vector_t\s*>", "OUT_VEC_T", 0, True),
    ("input_scalar_type", "IN_SCALAR_T", 0),
] + LAYER_SUBST + [
    ("contravariant_output_t::scalar_t", "B_IN_SCALAR_T", 0),
    ("m_backend.at(", "backend_at(", 0),
    ("_backend_index_helper(", "linear_index_helper(self, ", 0),
]


def make_linear(name, consts, N="2"):
    n = int(N)
    fns = [Fn("linear_index_helper", LINEAR, ["struct linear", "struct non_owning_data_t"], "_backend_index_helper",
              ret="B_IN_VEC_T", ptypes=["B_IN_VEC_T", "size_t", None], vec_types=["B_IN_VEC_T"], method="const LINEAR_SELF_T *self",
              subst=LINEAR_SUBST, pack=("Is", list(range(n)), n, "B_IN_VEC_T")),
           Fn("linear_at", LINEAR, ["struct linear", "struct non_owning_data_t"], "at",
              ret="OUT_VEC_T", ptypes=["IN_VEC_T"], vec_types=["IN_VEC_T", "B_IN_VEC_T", "OUT_VEC_T"], method="const LINEAR_SELF_T *self",
              subst=LINEAR_SUBST + [MKSEQ], arrays2=["pc"], brace_call=("backend_at", n, "B_IN_VEC_T"))]
    return Unit(name, fns, "contracts/linear.h", "lemmas/linear.c")


# ---------------------------------------------------------------- layer framing (nd_size configuration)
LAYER_IO_SUBST = IO_SUBST + [
    (r"\bIO_MAGIC_HEADER\b", "verif_layer_tag_obj", 0, True),
    (r"(?s)(?:utility::)?read_binary\s*<\s*__typeof__\s*\(\s*m_sizes\s*\)\s*>\s*\(", "read_binary_ndsize(", 0, True),
    (r"\bauto\s+sizes\b", "ND_SIZE_T sizes", 0, True),
    (r"(?s)\bauto\s+be\s*=\s*(?:backend_t::owning_data_t|__typeof__\s*\(\s*m_storage\s*\))\s*::\s*read_binary\s*\(", "B_OWN_T be = backend_read_binary(", 0, True),
    (r"(?s)(?:backend_t::owning_data_t|__typeof__\s*\(\s*m_storage\s*\))\s*::\s*write_binary\s*\(\s*fs\s*,\s*o\s*\.\s*m_storage\s*\)", "backend_write_binary(fs, &o.m_storage)", 0, True),
    (r"(?s)owning_data_t\s*\(\s*sizes\s*,\s*std::move\s*\(\s*be\s*\)\s*\)", "verif_layer_own_ctor(sizes, be)", 0, True),
    (r"__typeof__\s*\(\s*m_sizes\s*\)", "ND_SIZE_T", 0, True),
    # the inner backend's configuration (abstract: one arbitrary extent, see stubs/backend_io.h)
    (r"(?s)std::\s*is_same_v\s*<\s*typename\s+backend_t::configuration_t\s*,\s*(?:covfie::)?(?:utility::)?nd_size\s*<\s*1\s*>\s*>", "VERIF_B_CONF_IS_ND1", 0, True),
    (r"\b(be|o\s*\.\s*m_storage)\s*\.\s*get_configuration\s*\(\s*\)", r"backend_get_configuration(&\1)", 0, True),
    (r"typename\s+backend_t::configuration_t", "B_CONF_T", 0, True),
    ("contravariant_input_t::dimensions", "DIMS_IN", 0),
]
LAYER_FILES = {"1": (STRIDED, "struct strided"), "2": (MORTON, "struct morton"), "3": (HILBERT, "struct hilbert"),
               "4": (CLAMP, "struct clamp"), "5": (BACKUP, "struct backup")}
VEC_IO_SUBST = IO_SUBST + [
    (r"\bIO_MAGIC_HEADER\b", "verif_layer_tag_obj", 0, True),
    (r"(?s)(?:utility::)?read_binary\s*<\s*__typeof__\s*\(\s*m_(?:min|max)\s*\)\s*>\s*\(", "read_binary_invec(", 0, True),
    (r"(?s)(?:utility::)?read_binary\s*<\s*__typeof__\s*\(\s*m_default\s*\)\s*>\s*\(", "read_binary_outvec(", 0, True),
    (r"\bauto\s+(min|max)\b", r"IN_VEC_T \1", 0, True),
    (r"\bauto\s+def\b", "OUT_VEC_T def", 0, True),
    (r"(?s)typename\s+backend_t::owning_data_t\s+be\s*=\s*backend_t::owning_data_t::read_binary\s*\(", "B_OWN_T be = backend_read_binary(", 0, True),
    (r"(?s)\bauto\s+be\s*=\s*backend_t::owning_data_t::read_binary\s*\(", "B_OWN_T be = backend_read_binary(", 0, True),
    (r"(?s)backend_t::owning_data_t::write_binary\s*\(\s*fs\s*,\s*o\s*\.\s*m_backend\s*\)", "backend_write_binary(fs, &o.m_backend)", 0, True),
    (r"(?s)owning_data_t\s*\(\s*configuration_t\s*\{\s*min\s*,\s*max\s*\}\s*,\s*std::move\s*\(\s*be\s*\)\s*\)", "verif_clamp_own_ctor(min, max, be)", 0, True),
    (r"(?s)owning_data_t\s*\(\s*configuration_t\s*\{\s*min\s*,\s*max\s*,\s*def\s*\}\s*,\s*std::move\s*\(\s*be\s*\)\s*\)", "verif_backup_own_ctor(min, max, def, be)", 0, True),
    (r"__typeof__\s*\(\s*m_(?:min|max)\s*\)", "IN_VEC_T", 0, True),
    (r"__typeof__\s*\(\s*m_default\s*\)", "OUT_VEC_T", 0, True),
]


def make_layer_io(name, consts, L="1"):
    f, sc = LAYER_FILES[L]
    fns = binio_fns()
    if L in ("4", "5"):
        fns.append(Fn("read_binary_invec", BINIO, ["namespace covfie::utility"], "read_binary", ret="IN_VEC_T", ptypes=["VERIF_ISTREAM *"],
                      subst=[("T", "IN_VEC_T", 0)] + IO_SUBST, drop=[r"(?s)static_assert\s*\(.*?\)\s*;"], throws=True, dummy_ret="rv"))
        fns.append(Fn("read_binary_outvec", BINIO, ["namespace covfie::utility"], "read_binary", ret="OUT_VEC_T", ptypes=["VERIF_ISTREAM *"],
                      subst=[("T", "OUT_VEC_T", 0)] + IO_SUBST, drop=[r"(?s)static_assert\s*\(.*?\)\s*;"], throws=True, dummy_ret="rv"))
        fns.append(Fn("layer_read_binary", f, [sc, "struct owning_data_t"], "read_binary", ret="LAYER_OWN_T", ptypes=["VERIF_ISTREAM *"],
                      subst=VEC_IO_SUBST, throws=True, propagate=MAY_THROW, dummy_ret="((LAYER_OWN_T){0})"))
        fns.append(Fn("layer_write_binary", f, [sc, "struct owning_data_t"], "write_binary", ret="void", ptypes=["VERIF_OSTREAM *", "const LAYER_OWN_T *"],
                      subst=VEC_IO_SUBST, refparams=["o"]))
        return Unit(name, fns, "contracts/layer_io.h", "lemmas/layer_io.c")
    fns.append(Fn("read_binary_ndsize", BINIO, ["namespace covfie::utility"], "read_binary", ret="ND_SIZE_T", ptypes=["VERIF_ISTREAM *"],
                  subst=[("T", "ND_SIZE_T", 0)] + IO_SUBST, drop=[r"(?s)static_assert\s*\(.*?\)\s*;"], throws=True, dummy_ret="rv"))
    fns.append(Fn("layer_read_binary", f, [sc, "struct owning_data_t"], "read_binary", ret="LAYER_OWN_T", ptypes=["VERIF_ISTREAM *"],
                  subst=LAYER_IO_SUBST, throws=True, propagate=MAY_THROW, dummy_ret="((LAYER_OWN_T){0})",
                  arrays=["sizes"], call_index=["backend_get_configuration"]))
    fns.append(Fn("layer_write_binary", f, [sc, "struct owning_data_t"], "write_binary", ret="void", ptypes=["VERIF_OSTREAM *", "const LAYER_OWN_T *"],
                  subst=LAYER_IO_SUBST, refparams=["o"]))
    return Unit(name, fns, "contracts/layer_io.h", "lemmas/layer_io.c")


# ---------------------------------------------------------------- conversion bodies (C05)
COPY_SUBST = [
    (r"__typeof__\s*\(\s*sizes\s*\)", "ND_SIZE_T", 0, True),
    ("configuration_t", "ND_SIZE_T", 0),
] + LAYER_SUBST + [
    (r"\bnother\s*\.\s*at\s*\(\s*t\s*\)", "source_at_nd(t)", 0, True),
    (r"\bnother\s*\.\s*at\s*\(", "source_at(", 0, True),
]


def make_copy(name, consts, L="2", N="2"):
    n = int(N)
    fns = []
    if L == "2":
        fns += numeric_fns_size_t()
        fns.append(Fn("morton_pdep_compute", MORTON, ["struct morton_pdep_mask"], "compute",
                      ret="size_t", ptypes=["IN_VEC_T", None], params_hint=r"index_sequence", vec_types=["IN_VEC_T"],
                      fold=("Idxs", list(range(n))),
                      subst_post=[(r"get_mask\s*<\s*(\d+)\s*>\s*::\s*value", r"VERIF_CAT(VERIF_MORTON_MASK_N%d_I\1_, IN_SCALAR_T)" % n, 0, True)]))
        fns.append(Fn("morton_calculate_index", MORTON, ["struct morton"], "calculate_index",
                      ret="size_t", ptypes=["IN_VEC_T"], vec_types=["IN_VEC_T"],
                      subst=COMMON_SUBST + [(r"(?s)morton_pdep_mask\s*<.*?>\s*::\s*compute", "morton_pdep_compute", 0, True), ("use_bmi2", "VERIF_USE_BMI2", 0)]))
        fns.append(Fn("morton_copy_elem", MORTON, ["struct morton"], "make_morton_copy", kind="lambda", lambda_marker=r"\[[^\]]*&\s*res\s*\]",
                      ret="void", ptypes=["ND_SIZE_T"], vec_types=["ND_SIZE_T", "IN_VEC_T"], method="OUT_VEC_T *res, ND_SIZE_T sizes",
                      arrays=["sizes"], arrays2=["res"], call_index=["source_at", "source_at_nd"],
                      subst=COPY_SUBST + [("calculate_index(", "morton_calculate_index(", 0)]))
        return Unit(name, fns, "contracts/copy.h", "lemmas/copy.c", stubs=[],
                    pre_includes=["stubs/numeric_size_t.h", "contracts/numeric.h", "stubs/pdep.h", "stubs/algorithm.h"])
    if L == "1":
        fns.append(Fn("strided_copy_elem", STRIDED, ["struct strided"], "make_strided_copy", kind="lambda", lambda_marker=r"\[[^\]]*&\s*res\s*\]",
                      ret="void", ptypes=["ND_SIZE_T"], vec_types=["ND_SIZE_T", "IN_VEC_T"], method="OUT_VEC_T *res, ND_SIZE_T sizes",
                      arrays=["sizes"], arrays2=["res"], call_index=["source_at", "source_at_nd"], subst=COPY_SUBST))
        return Unit(name, fns, "contracts/copy.h", "lemmas/copy.c")
    if L == "3":
        fns.append(Fn("hilbert_rot", HILBERT, ["struct hilbert"], "rot", ret="void",
                      ptypes=["size_t", "size_t *", "size_t *", "size_t", "size_t"]))
        fns.append(Fn("hilbert_calculate_index", HILBERT, ["struct hilbert"], "calculate_index", ret="size_t",
                      ptypes=["IN_VEC_T", "ND_SIZE_T"], vec_types=["IN_VEC_T", "ND_SIZE_T"],
                      subst=HILBERT_SUBST + [("rot(", "hilbert_rot(", 0)]))
        fns.append(Fn("hilbert_copy_elem", HILBERT, ["struct hilbert"], "make_hilbert_copy", kind="lambda", lambda_marker=r"\[[^\]]*&\s*res\s*\]",
                      ret="void", ptypes=["ND_SIZE_T"], vec_types=["ND_SIZE_T", "IN_VEC_T"], method="OUT_VEC_T *res, ND_SIZE_T sizes",
                      arrays=["sizes"], arrays2=["res"], call_index=["source_at", "source_at_nd"],
                      subst=COPY_SUBST + HILBERT_SUBST + [("calculate_index(", "hilbert_calculate_index(", 0)]))
        return Unit(name, fns, "contracts/copy.h", "lemmas/copy.c")
    raise ExtractionError("unknown copy layer")


# ---------------------------------------------------------------- serialisers without own configuration
FIELD = CORE + "field.hpp"
THIN_SUBST = IO_SUBST + [
    (r"\bIO_MAGIC_HEADER\b", "verif_layer_tag_obj", 0, True),
    (r"(?s)\bauto\s+be\s*=\s*(?:backend_t::owning_data_t|__typeof__\s*\(\s*m_backend\s*\))\s*::\s*read_binary\s*\(", "B_OWN_T be = backend_read_binary(", 0, True),
    (r"(?s)(?:backend_t::owning_data_t|__typeof__\s*\(\s*m_backend\s*\))\s*::\s*write_binary\s*\(\s*fs\s*,\s*o\s*\.\s*m_backend\s*\)", "backend_write_binary(fs, &o.m_backend)", 0, True),
    (r"(?s)(?:backend_t::owning_data_t|__typeof__\s*\(\s*m_backend\s*\))\s*::\s*write_binary\s*\(\s*fs\s*,\s*m_backend\s*\)", "backend_write_binary(fs, &m_backend)", 0, True),
    (r"(?s)__typeof__\s*\(\s*m_backend\s*\)\s*::\s*read_binary\s*\(", "backend_read_binary(", 0, True),
    (r"(?s)owning_data_t\s*\(\s*configuration_t\s*\{\s*\}\s*,\s*std::move\s*\(\s*be\s*\)\s*\)", "verif_thin_own_ctor(be)", 0, True),
    (r"(?s)\breturn\s+owning_data_t\s*\(\s*\)\s*;", "return verif_ident_own_ctor();", 0, True),
]
THIN_FILES = {"1": (LINEAR, "struct linear"), "2": (NN, "struct nearest_neighbour"), "3": (SHUFFLE, "struct shuffle"), "4": (IDENTITY, "struct identity"),
              "6": (CAST, "struct covariant_cast"), "7": (DEREF, "struct dereference"), "8": (CONSTANT, "struct constant")}


def make_thin_io(name, consts, T="1"):
    fns = binio_fns()
    if T in ("1", "2", "3", "6", "7"):
        f, sc = THIN_FILES[T]
        fns.append(Fn("thin_read_binary", f, [sc, "struct owning_data_t"], "read_binary", ret="THIN_OWN_T", ptypes=["VERIF_ISTREAM *"],
                      subst=THIN_SUBST, throws=True, propagate=MAY_THROW, dummy_ret="((THIN_OWN_T){{0}})"))
        fns.append(Fn("thin_write_binary", f, [sc, "struct owning_data_t"], "write_binary", ret="void", ptypes=["VERIF_OSTREAM *", "const THIN_OWN_T *"],
                      subst=THIN_SUBST, refparams=["o"]))
    elif T == "4":
        f, sc = THIN_FILES[T]
        fns.append(Fn("ident_read_binary", f, [sc, "struct owning_data_t"], "read_binary", ret="IDENT_OWN_T", ptypes=["VERIF_ISTREAM *"],
                      subst=THIN_SUBST, throws=True, propagate=MAY_THROW, dummy_ret="((IDENT_OWN_T){0})"))
        fns.append(Fn("ident_write_binary", f, [sc, "struct owning_data_t"], "write_binary", ret="void", ptypes=["VERIF_OSTREAM *", "const IDENT_OWN_T *"],
                      subst=THIN_SUBST))
    elif T == "8":
        f, sc = THIN_FILES[T]
        csub = THIN_SUBST + [(r"(?s)(?:utility::)?read_binary\s*<\s*typename\s+covariant_output_t::vector_t\s*>\s*\(", "read_binary_outvec(", 0, True),
                             (r"\bauto\s+vec\b", "OUT_VEC_T vec", 0, True),
                             (r"(?s)\breturn\s+owning_data_t\s*\(\s*vec\s*\)\s*;", "return verif_const_own_ctor(vec);", 0, True),
                             (r"__typeof__\s*\(\s*o\.m_value\s*\)", "OUT_VEC_T", 0, True)]
        fns.append(Fn("read_binary_outvec", BINIO, ["namespace covfie::utility"], "read_binary", ret="OUT_VEC_T", ptypes=["VERIF_ISTREAM *"],
                      subst=[("T", "OUT_VEC_T", 0)] + IO_SUBST, drop=[r"(?s)static_assert\s*\(.*?\)\s*;"], throws=True, dummy_ret="rv"))
        fns.append(Fn("const_read_binary", f, [sc, "struct owning_data_t"], "read_binary", ret="CONST_OWN_T", ptypes=["VERIF_ISTREAM *"],
                      subst=csub, throws=True, propagate=MAY_THROW, dummy_ret="((CONST_OWN_T){0})"))
        fns.append(Fn("const_write_binary", f, [sc, "struct owning_data_t"], "write_binary", ret="void", ptypes=["VERIF_OSTREAM *", "const CONST_OWN_T *"],
                      subst=csub, refparams=["o"]))
    elif T == "5":
        fns.append(Fn("field_load", FIELD, ["class field"], "field", params_hint=r"std::istream", ret="void", ptypes=["VERIF_ISTREAM *"], ctor=True,
                      method="THIN_OWN_T *self", members=["m_backend"], subst=THIN_SUBST, throws=True, propagate=MAY_THROW, dummy_ret=""))
        fns.append(Fn("field_dump", FIELD, ["class field"], "dump", ret="void", ptypes=["VERIF_OSTREAM *"],
                      method="const THIN_OWN_T *self", members=["m_backend"], subst=THIN_SUBST))
    return Unit(name, fns, "contracts/thin_io.h", "lemmas/thin_io.c")


# ---------------------------------------------------------------- affine algebra and layer (C09)
ALG_MATRIX = CORE + "algebra/matrix.hpp"
ALG_AFFINE = CORE + "algebra/affine.hpp"
AFFINE_L = CORE + "backend/transformer/affine.hpp"


def mat_subst(n, m, p, res):
    """binds the template parameters of algebra::matrix<N, M, T, I>::operator*<P> for one instantiation"""
    return [
        (r"matrix\s*<\s*N\s*,\s*P\s*,\s*T\s*,\s*I\s*>", res, 0, True),
        (r"matrix\s*<\s*N\s*,\s*M\s*,\s*T\s*,\s*I\s*>", res, 0, True),
        (r"\bN\b", n, 0, True), (r"\bM\b", m, 0, True), (r"\bP\b", p, 0, True), (r"\bT\b", "AT", 0, True), (r"\bI\b", "size_t", 0, True),
    ]


AFF_SUBST = [
    (r"vector\s*<\s*N\s*\+\s*1\s*,\s*T\s*,\s*I\s*>", "VEC_N1", 0, True),
    (r"vector\s*<\s*N\s*,\s*T\s*,\s*I\s*>", "VEC_N", 0, True),
    (r"matrix\s*<\s*N\s*\+\s*1\s*,\s*N\s*\+\s*1\s*,\s*T\s*,\s*I\s*>", "MAT_N1_N1", 0, True),
    (r"(?s)return\s+matrix\s*<\s*N\s*,\s*N\s*\+\s*1\s*,\s*T\s*,\s*I\s*>\s*::\s*operator\s*\*\s*\(\s*(\w+)\s*\)", r"return mat_mul_a(self, &\1)", 0, True),
    (r"(?s)return\s+(?:base_t|parent_t|matrix_t)\s*::\s*operator\s*\*\s*\(\s*(\w+)\s*\)", r"return mat_mul_a(self, &\1)", 0, True),
    (r"matrix\s*<\s*N\s*,\s*N\s*\+\s*1\s*,\s*T\s*,\s*I\s*>\s*::\s*identity\s*\(\s*\)", "mat_identity()", 0, True),
    (r"matrix\s*<\s*N\s*,\s*N\s*\+\s*1\s*,\s*T\s*,\s*I\s*>", "MAT_N_N1", 0, True),
    (r"(?s)array::array\s*<\s*T\s*,\s*N\s*>\s*arr\s*\{\s*args\s*\.\.\.\s*\}\s*;", "ARGS_T arr = args;", 0, True),
    (r"=\s*m1\s*\*\s*m2\s*;", "= mat_mul_b(&m1, &m2);", 0, True),
    (r"\bN\b", "DIMS_IN", 0, True), (r"\bT\b", "AT", 0, True), (r"\bI\b", "size_t", 0, True),
]
SA_DROP = [r"(?s)static_assert\s*\(.*?\)\s*;"]


def make_affine(name, consts):
    fns = []
    fns.append(Fn("mat_mul_a", ALG_MATRIX, ["struct matrix"], "operator*", ret="VEC_N", ptypes=["const VEC_N1 *"], method="const MAT_N_N1 *self",
                  subst=mat_subst("DIMS_IN", "N1", "1", "VEC_N"), mats={"o": ("->", "mat"), "r": (".", "mat")}, members=["m_elems"]))
    fns.append(Fn("mat_mul_b", ALG_MATRIX, ["struct matrix"], "operator*", ret="MAT_N1_N1", ptypes=["const MAT_N1_N1 *"], method="const MAT_N1_N1 *self",
                  subst=mat_subst("N1", "N1", "N1", "MAT_N1_N1"), mats={"o": ("->", "mat"), "r": (".", "mat")}, members=["m_elems"]))
    fns.append(Fn("mat_identity", ALG_MATRIX, ["struct matrix"], "identity", ret="MAT_N_N1", ptypes=[],
                  subst=mat_subst("DIMS_IN", "N1", "1", "MAT_N_N1"), mats={"result": (".", "mat")}))
    fns.append(Fn("affine_apply", ALG_AFFINE, ["struct affine"], "operator*", params_hint=r"vector", ret="VEC_N", ptypes=["const VEC_N *"],
                  method="const MAT_N_N1 *self", subst=AFF_SUBST, mats={"r": (".", "vec"), "v": ("->", "vec")}))
    fns.append(Fn("affine_mul", ALG_AFFINE, ["struct affine"], "operator*", params_hint=r"affine", ret="MAT_N_N1", ptypes=["const MAT_N_N1 *"],
                  method="const MAT_N_N1 *self", subst=AFF_SUBST,
                  mats={"m1": (".", "mat"), "m2": (".", "mat"), "m": ("->", "mat"), "r": (".", "mat"), "o": (".", "mat")}))
    fns.append(Fn("affine_translation", ALG_AFFINE, ["struct affine"], "translation", ret="MAT_N_N1", ptypes=["ARGS_T"], pnames=["args"],
                  subst=AFF_SUBST, drop=SA_DROP, arrays=["arr"], mats={"result": (".", "mat")}))
    fns.append(Fn("affine_scaling", ALG_AFFINE, ["struct affine"], "scaling", ret="MAT_N_N1", ptypes=["ARGS_T"], pnames=["args"],
                  subst=AFF_SUBST, drop=SA_DROP, arrays=["arr"], mats={"result": (".", "mat")}))
    fns.append(Fn("affine_at", AFFINE_L, ["struct affine", "struct non_owning_data_t"], "at", ret="OUT_VEC_T", ptypes=["IN_VEC_T"],
                  vec_types=["IN_VEC_T", "B_IN_VEC_T"], method="const AFFINE_SELF_T *self", members=["m_transform"],
                  subst=[(r"(?s)covfie::algebra::vector\s*<\s*contravariant_input_t::dimensions\s*,\s*typename\s+contravariant_input_t::scalar_t\s*>", "VEC_N", 0, True),
                         (r"=\s*m_transform\s*\*\s*v\s*;", "= affine_apply(&m_transform, &v);", 0, True)] + LAYER_SUBST + [("m_backend.at(", "backend_at(", 0)],
                  mats={"v": (".", "vec"), "nv": (".", "vec"), "m_transform": (".", "mat")}))
    return Unit(name, fns, "contracts/affine.h", "lemmas/affine.c", stubs=["stubs/backend.h"])


def get_unit(name, consts=None):
    """name is 'base' or 'base@k=v,k=v' for units whose extraction depends on template arguments."""
    if name in UNITS:
        return UNITS[name]
    base, _, args = name.partition("@")
    kw = dict(a.split("=") for a in args.split(",")) if args else {}
    return FACTORIES[base](name, consts or {}, **kw)


FACTORIES = {}
FACTORIES["morton"] = make_morton
FACTORIES["strided"] = make_strided
FACTORIES["hilbert"] = make_hilbert
FACTORIES["array_at"] = make_array_at
FACTORIES["clamp"] = make_clamp
FACTORIES["backup"] = make_backup
FACTORIES["nn"] = make_nn
FACTORIES["binary_io"] = make_binio
FACTORIES["array_io"] = make_array_io
FACTORIES["array_own"] = make_array_own
FACTORIES["shuffle"] = make_shuffle
FACTORIES["cast"] = make_cast
FACTORIES["deref"] = make_deref
FACTORIES["constant"] = make_constant
FACTORIES["identity"] = make_identity
FACTORIES["linear"] = make_linear
FACTORIES["layer_io"] = make_layer_io
FACTORIES["copy"] = make_copy
FACTORIES["thin_io"] = make_thin_io
FACTORIES["affine"] = make_affine
