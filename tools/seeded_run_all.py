import json, subprocess, sys
sys.path.insert(0, '/verif/tools')
import seeded_eval
M = {
 "S01-morton-bmi2-mask-width": ["C14", "C01"], "S02-morton-tight-storage": ["C01", "C18", "C05"], "S03-backup-max-exclusive": ["C11", "C02"],
 "S04-cast-via-float": ["C02"], "S05-clamp-fmin-fmax": ["C10", "C02"], "S06-shuffle-scatter": ["C02"],
 "S07-linear1d-lerp-overflow": ["C03"], "S08-linear3d-truncf-double": ["C03"], "S09-linearnd-weight-axes-m": ["C03"],
 "S10-nn-floor-half": ["C04"], "S11-array-double-via-float": ["C08", "C07"], "S12-footer-and-merge": ["C08"], "S13-footer-legacy-eof": ["C08"],
 "S14-strided-extent-check": ["C06"], "S15-array-assign-release-leak": ["C12"], "S16-array-assign-reuse-capacity": ["C12", "C15"],
 "S17-hilbert-rect-allocation": ["C01", "C05"], "S18-morton-copy-component-loop": ["C05"], "S19-morton-bmi2-mask-width": ["C14", "C01"],
 "S20-round-pow2-bit-smear": ["C18"], "S22-compose-drops-left-translation": ["C09"], "S23-compose-right-factor-transposed": ["C09"],
 "S24-layer-transposed-linear-part": ["C09"], "S25-hilbert-static-extent-cache": ["C16"], "S26-morton-1d-shift-overflow": ["C15", "C14"], "N01-morton-tight-storage-correct": ["C18", "C01", "C05"], "N02-affine-layer-inline-correct": ["C09"],
 "N03-r01_numeric_loops": ["C18"], "N04-r02_binio_mismatch_helper": ["C08"], "N05-r03_array_copy_helper": ["C12"], "N06-r04_array_io_switch": ["C08", "C06"],
 "N07-r05_morton_index_helper": ["C14", "C01"], "N08-r06_strided_total_size": ["C01", "C05"], "N09-r07_hilbert_index": ["C14", "C01"],
 "N10-r08_clamp_scalar_helper": ["C10"], "N11-r09_linear_hoist_weights": ["C03"], "N12-r10_algebra_matrix_affine": ["C09"], "S21-rowmajor-stride-accumulate": ["C14", "C01"],
}
only = sys.argv[1:] 
import os
res = json.load(open('/verif/seeded/results.json')) if only and os.path.exists('/verif/seeded/results.json') else {}
for sid, props in M.items():
    if only and not any(sid.startswith(o) for o in only): continue
    r = seeded_eval.run(sid, props)
    res[sid] = r
    print(sid, json.dumps(r)[:600], flush=True)
json.dump(res, open('/verif/seeded/results.json', 'w'), indent=1)
