#!/usr/bin/env python3
"""
Replay of a refuted obligation on the real C++ code.

The counterexample's harness inputs (variables named in_*) are taken from the
cbmc trace as BIT PATTERNS, handed to a native program built from
replay/<name>.cpp against the real headers of /repo (with the cell's template
arguments as -D defines), once as a debug build and once with -DNDEBUG -O2.
The program evaluates the unit's contract natively and exits
   0  contract holds on this input (not confirmed)
   1  contract violated on this input (confirmed), details on stdout
Any signal / time-out is recorded as "crashed".
"""
import json
import os
import re
import subprocess

import cbmc_run
import extract

HERE = os.path.dirname(os.path.abspath(__file__))
VERIF = os.path.dirname(HERE)
REPO = extract.REPO


def norm_name(lhs):
    return re.sub(r"\[(\d+)[lu]*\]", r"[\1]", lhs)


def build_and_run(cell, inputs, scratch, out, light=False):
    src = os.path.join(VERIF, "replay", cell.replay + ".cpp")
    if not os.path.exists(src):
        out.append("replay template %s missing" % src)
        return False
    defs = ["-D%s=%s" % (k, v) if v is not None else "-D%s" % k for k, v in cell.defines.items() if k != "HAVE_BMI2"]
    if "HAVE_BMI2" in cell.defines:
        defs.append("-mbmi2")   # morton.hpp defines HAVE_BMI2 itself from __BMI2__
    argv = ["%s=%s" % (norm_name(k), v["binary"]) for k, v in sorted(inputs.items()) if v.get("binary")]
    confirmed = False
    for flavour, cxx, flags in (("debug+ubsan(clang++)", "clang++", ["-O0", "-g", "-fsanitize=undefined", "-fno-sanitize-recover=all"]),
                               ("debug(g++)", "g++", ["-O0", "-g"]),
                               ("ndebug(g++ -O2)", "g++", ["-O2", "-DNDEBUG"])):
        if light and not flavour.startswith("debug(g++)"):
            continue   # after the first few refuted cells of a run only the plain g++ debug build is replayed
        exe = os.path.join(scratch, "replay_%s_%s" % (re.sub(r"\W", "_", cell.id), re.sub(r"\W", "_", flavour)))
        cmd = [cxx, "-std=c++20", "-w", "-I", os.path.join(REPO, "lib/core"), "-I", os.path.join(VERIF, "replay")] + flags + defs + [src, "-o", exe]
        p = subprocess.run(cmd, capture_output=True, text=True)
        out.append("$ " + " ".join(cmd))
        if p.returncode != 0:
            out.append("replay build failed (%s):\n%s" % (flavour, p.stderr[-3000:]))
            continue
        try:
            q = subprocess.run(["timeout", "-s", "KILL", "10", exe] + argv, capture_output=True, timeout=20)
            so = q.stdout.decode(errors="replace")[:4000]
            se = q.stderr.decode(errors="replace")[:2000]
            rc = q.returncode
        except subprocess.TimeoutExpired:
            so, se, rc = "", "timeout", -9
        out.append("$ %s %s" % (exe, " ".join(argv)))
        out.append("[%s build] exit=%s\n%s%s" % (flavour, rc, so, se))
        if rc == 1:
            out.append("REPLAY[%s]: CONFIRMED on the real code" % flavour)
            confirmed = True
        elif rc == 0:
            out.append("REPLAY[%s]: not confirmed (contract holds natively on this input)" % flavour)
        else:
            out.append("REPLAY[%s]: CRASHED/ABORTED on the real code (exit %s) -- counts as confirmed" % (flavour, rc))
            confirmed = True
        try:
            os.unlink(exe)
        except OSError:
            pass
    return confirmed


def replay_violation(pid, cell, result, failed, path, scratch, all_failed=None, light=False):
    out = []
    out.append("property: %s" % pid)
    out.append("cell: %s" % result["cell"])
    out.append("failed obligation: %s" % failed["property"])
    out.append("description: %s" % failed.get("description", ""))
    if all_failed and len(all_failed) > 1:
        out.append("all failed obligations of this cell (%d):" % len(all_failed))
        for f in all_failed[:60]:
            out.append("  %s : %s" % (f["property"], f.get("description", "")[:160]))
    loc = failed.get("location") or {}
    if loc:
        out.append("location (in extracted unit): %s:%s function %s" % (loc.get("file"), loc.get("line"), loc.get("function")))
    out.append("back end: %s" % result.get("backend"))
    out.append("template arguments / defines: %s" % json.dumps(result.get("defines", {})))
    out.append("commands:")
    for c in result.get("cmds", []):
        out.append("  " + c)
    confirmed = False
    trace = failed.get("trace") or []
    if failed.get("static"):
        out.append("supporting static fact violated (no verifier trace): %s" % failed.get("description"))
    inputs = cbmc_run.trace_inputs(trace, extra=getattr(cell, 'trace_extra', ()) if cell is not None else ()) if trace else {}
    if inputs:
        out.append("counterexample inputs (harness variables in_*, bit patterns):")
        for k, v in sorted(inputs.items()):
            out.append("  %s = %s (binary %s)" % (norm_name(k), v.get("data"), v.get("binary")))
    elif trace:
        out.append("verifier trace has no harness input assignments")
    else:
        out.append("verifier gave no trace")
    if cell is not None and getattr(cell, "replay", None) and inputs:
        try:
            confirmed = build_and_run(cell, inputs, scratch, out, light=light)
        except Exception as e:
            out.append("replay machinery failed: %r" % e)
    else:
        out.append("no native replay available for this obligation")
    if not confirmed:
        out.append("no-failing-input-found: the obligation %s (discharged on the pinned tree) is refuted by the verifier, "
                   "but no input reproducing a wrong result on the real code was obtained" % failed["property"])
    # trace excerpt
    if trace:
        out.append("---- verifier trace excerpt (assignments, last 60 steps) ----")
        steps = [s for s in trace if s.get("stepType") in ("assignment", "failure", "function-call")]
        for s in steps[-60:]:
            if s.get("hidden"):
                continue
            if s["stepType"] == "assignment":
                v = s.get("value", {})
                out.append("  %s = %s%s" % (s.get("lhs"), v.get("data"), (" (%s)" % v.get("binary")) if v.get("binary") else ""))
            elif s["stepType"] == "failure":
                out.append("  FAILURE: %s" % s.get("reason"))
            else:
                out.append("  call %s" % s.get("function", {}).get("displayName"))
    with open(path, "w") as f:
        f.write("\n".join(out) + "\n")
    return confirmed
