#!/usr/bin/env python3
"""
Recipes: where a function lives in /repo, its C signature, which rewrite rules
apply (and which must fire), and assembly of extracted functions into a C
translation unit with contract macros woven in.

Woven text per function F with C parameters p1..pn:

    RET F(PARAMS)
    CONTRACT_F(p1, .., pn)        <- macro from contracts/<unit>.h (empty if undefined)
    { <body of /repo, rewritten by the rules> }

and, after the header of the k-th loop of F (textual order):  LOOP_F_k
"""
import os
import re
import extract as X
from extract import ExtractionError


class Fn:
    def __init__(self, key, file, scopes, name, ret, ptypes, occurrence=0,
                 params_hint=None, method=None, subst=(), arrays=(), arrays2=(),
                 members=(), refparams=(), vec_types=(), pack=None, fold=None,
                 throws=False, propagate=(), dummy_ret=None, must=None,
                 call_index=(), lambda_marker=None, pnames=None, static_fn=True,
                 byref_return=False, extra_pre="", extra_post="", kind="function",
                 expr_rx=None, expr_in_header=False, drop=(), subst_post=(), ctor=False, brace_call=None, auto=False, mats=None):
        self.__dict__.update(locals())
        del self.__dict__["self"]
        self.must = dict(must or {})


def scope_aliases(fn):
    """`using NAME = TYPE;` declarations in the scopes enclosing the function whose right-hand side maps to a C type
    through the function's own substitution table (e.g. a maintainer's `using scalar_t = typename
    contravariant_input_t::scalar_t;`).  Returned as extra substitutions; aliases that do not resolve are ignored."""
    try:
        src = open(os.path.join(X.REPO, fn.file)).read()
    except OSError:
        return []
    blank = X.blank_preprocessor(X.blank_comments_and_strings(src))
    out = []
    lo, hi = 0, len(src)
    ranges = [(lo, hi)]
    try:
        for sc in fn.scopes:
            lo, hi = X._scope_range(blank, lo, hi, sc)
            ranges.append((lo, hi))
    except ExtractionError:
        return []
    seen = set()
    for lo, hi in reversed(ranges):
        for m in re.finditer(r"\busing\s+([A-Za-z_]\w*)\s*=\s*([^;{}]+);", blank[lo:hi]):
            name = m.group(1)
            if name in seen:
                continue
            rhs = src[lo + m.start(2):lo + m.end(2)]
            ctype = map_cxx_type(rhs, list(fn.subst))
            if ctype and re.match(r"^([A-Z][A-Z_0-9]*_T|size_t|uint\d+_t|int|unsigned|float|double|long)$", ctype) and name != ctype:
                seen.add(name)
                out.append((r"(?<![A-Za-z_0-9:])(?:typename\s+)?" + re.escape(name) + r"\b(?!\s*::)", ctype, 0, True))
    return out


def emit_fn(fn):
    """Returns (c_text, report)."""
    if fn.kind == "lambda":
        loc = X.locate_lambda_body(fn.file, fn.scopes, fn.name, fn.lambda_marker)
    elif fn.kind == "arg":
        loc = X.locate_call_arg(fn.file, fn.scopes, fn.name, fn.expr_rx, arg_index=fn.occurrence,
                                in_header=fn.expr_in_header, params_hint=fn.params_hint)
    elif fn.kind == "expr":
        loc = X.locate_expr(fn.file, fn.scopes, fn.name, fn.expr_rx,
                            occurrence=fn.occurrence, in_header=fn.expr_in_header,
                            params_hint=fn.params_hint)
    else:
        loc = X.locate(fn.file, fn.scopes, fn.name, fn.occurrence, fn.params_hint)
    fired = {}
    body = loc.body

    def note(rule, n):
        fired[rule] = fired.get(rule, 0) + (n if isinstance(n, int) else len(n))

    for pat in fn.drop:
        body, n = re.subn(pat, "/* dropped by recipe */", body)
        note("drop", n)
        if n == 0:
            raise ExtractionError("%s: drop pattern %r did not fire" % (fn.key, pat))

    if fn.kind in ("expr", "arg"):
        body = "return " + body + ";"
    if fn.kind not in ("lambda",):
        body, n = X.r_inline_lambdas(body); note("R24_inline_lambda", n)
    if fn.ctor:
        init, n = X.ctor_init_statements(loc.header)
        note("R21_ctor_init", n)
        body = "\n/* R21: mem-initialisers */\n" + init + body

    hoisted = []
    # other hidden-state keywords are not rewritten: they stay and fail the C compile -> exit 2,
    # except 'mutable' which check_residue reports.
    if fn.throws or re.search(r"\bthrow\b", X.blank_comments_and_strings(body)):
        body, n = X.r_throw(body); note("R9_throw", n)
    body, n = X.r_cast(body); note("R1_cast", n)
    body, n = X.r_std_algorithms(body); note("R16_algorithms", n)
    body, n = X.r_sizeof_decltype(body); note("R13_decltype", n)
    body, f = X.r_subst(body, list(fn.subst)); note("R4_subst", sum(c for _, c in f))
    al = scope_aliases(fn)
    if al:
        body, f = X.r_subst(body, al); note("R4b_scope_alias", sum(c for _, c in f))
    body, n = X.r_strip_ns(body); note("R2b_strip_detail_ns", n)
    body, n = X.r_std(body); note("R2_std", n)
    body, n = X.r_auto(body); note("R22_auto", n)
    body, n = X.r_range_for(body); note("R27_range_for", n)
    body, n = X.r_ref_to_array(body); note("R25_ref_to_array", n)
    body, n = X.r_local_using(body); note("R26_local_using", n)
    body, n = X.r_local_const_ref(body, tuple(set(fn.vec_types) | {"IN_VEC_T", "OUT_VEC_T"})); note("R28_local_const_ref", n)
    body, n = X.r_functional_cast(body); note("R1b_functional_cast", n)
    body, n = X.r_brace_scalar_init(body); note("R1c_brace_init", n)
    body, n = X.r_if_constexpr(body); note("R6_if_constexpr", n)
    body, hoisted = X.r_hoist_statics(body, fn.key)      # after type rewriting, so that the hoisted declaration is C
    note("R18_hoist_static", len(hoisted))
    if fn.pack:
        body, n = X.r_pack_return(body, *fn.pack); note("R8_pack", n)
        body, n = X.r_fold_or(body, fn.pack[0], fn.pack[1]); note("R8_fold", n)
    if fn.fold:
        body, n = X.r_fold_or(body, *fn.fold); note("R8_fold", n)

    if fn.mats:
        mats = dict(fn.mats)
        # locals declared with a matrix / vector C type are matrices whatever they are called
        for m in re.finditer(r"\b(VEC_N1|VEC_N|MAT_N_N1|MAT_N1_N1)\s+([A-Za-z_]\w*(?:\s*,\s*[A-Za-z_]\w*)*)\s*[;=]", body):
            for nm in re.split(r"\s*,\s*", m.group(2)):
                mats.setdefault(nm, (".", "vec" if m.group(1).startswith("VEC") else "mat"))
        body, n = X.r_matrix_ops(body, mats); note("R17_matrix_ops", n)
    if fn.brace_call:
        body, n = X.r_brace_call_arg(body, *fn.brace_call); note("R8b_brace_call", n)
    if fn.subst_post:
        body, f = X.r_subst(body, list(fn.subst_post)); note("R4_subst", sum(c for _, c in f))
    if fn.byref_return:
        # R20: a function returning a C++ reference returns the address of the designated object
        body, n = X.r_byref_return(body); note("R20_byref_return", n)
        if n == 0:
            raise ExtractionError("%s: no return statement for by-reference return" % fn.key)

    # parameter names from the C++ header
    if fn.pnames is not None:
        pnames = list(fn.pnames)
    else:
        pnames = X.param_names(loc.params_text)
    if len(pnames) != len(fn.ptypes):
        raise ExtractionError("%s: %d parameters in /repo, recipe expects %d (%r)"
                              % (fn.key, len(pnames), len(fn.ptypes), loc.params_text))
    # unnamed parameters get a fixed name; parameters with ptype None are tag types and are dropped
    pnames = [p if p else "verif_unnamed%d" % i for i, p in enumerate(pnames)]
    keep = [i for i, t in enumerate(fn.ptypes) if t is not None]
    ptypes = [fn.ptypes[i] for i in keep]
    pnames = [pnames[i] for i in keep]

    # array-typed identifiers: declared in recipe, parameters of vec types, locals of vec types
    arrays = set(fn.arrays)
    refs = set(fn.refparams)
    for ty, nm in zip(ptypes, pnames):
        base = ty.replace("const", "").replace("*", "").strip()
        if base in fn.vec_types and "*" not in ty:
            arrays.add(nm)
        if ty.rstrip().endswith("*") and ty.rstrip().endswith("/*ref*/ *"):
            refs.add(nm)
    for m in re.finditer(r"__auto_type\s+([A-Za-z_]\w*)\s*=\s*(backend_at|verif_b_table)\b", body):
        arrays.add(m.group(1))   # object copy of a covfie::array returned by the backend
    if fn.vec_types:
        decl = re.compile(r"\b(" + "|".join(re.escape(v) for v in fn.vec_types) + r")\s+([A-Za-z_]\w*)\s*[;=]")
        for m in decl.finditer(body):
            arrays.add(m.group(2))
    for cal in fn.call_index:
        body, n = X.r_call_index(body, cal); note("R19_call_index", n)
    body, n = X.r_index2(body, sorted(fn.arrays2)); note("R19_index2", n)
    body, n = X.r_index(body, sorted(arrays)); note("R19_index", n)
    body, n = X.r_refparam(body, sorted(refs)); note("R11_refparam", n)
    for nm in sorted(refs):   # address of a reference parameter is the pointer itself
        body, n = re.subn(r"&\s*" + re.escape(nm) + r"\b(?!\s*(->|\.|\[))", nm, body); note("R11_refparam_addr", n)
    if fn.method and "self" in fn.method:
        body, n = re.subn(r"\*\s*this\b", "(*self)", body); note("R11_this", n)
        body, n = re.subn(r"\bthis\b", "self", body); note("R11_this", n)
    body, n = X.r_members(body, fn.members); note("R11_member", n)
    if fn.propagate:
        body, n = X.r_propagate(body, fn.propagate); note("R14_propagate", n)
    body, nloops = X.weave_loops(body, fn.key)
    for rule, mn in fn.must.items():
        if fired.get(rule, 0) < mn:
            raise ExtractionError("%s: must-fire rule %s fired %d < %d times"
                                  % (fn.key, rule, fired.get(rule, 0), mn))
    X.check_residue(body, fn.key)

    params = []
    if fn.method:
        params.append(fn.method)
    for ty, nm in zip(ptypes, pnames):
        params.append("%s %s" % (ty.replace("/*ref*/ ", ""), nm))
    mnames = [re.search(r"([A-Za-z_]\w*)\s*$", part.strip()).group(1) for part in fn.method.split(",")] if fn.method else []
    cnames = mnames + pnames
    out = []
    out.append("/* ---- %s : %s:%d-%d sha256=%s ---- */" % (fn.key, loc.file, loc.line0, loc.line1, loc.sha256[:16]))
    for _, mangled, decl in hoisted:
        out.append(decl)
    if fn.dummy_ret is not None:
        out.append("#define VERIF_DUMMY_RET %s" % fn.dummy_ret)
    out.append("#ifndef CONTRACT_%s\n#define CONTRACT_%s(...)\n#endif" % (fn.key, fn.key))
    for k in range(nloops):
        out.append("#ifndef LOOP_%s_%d\n#define LOOP_%s_%d\n#endif" % (fn.key, k, fn.key, k))
    proto = "%s %s(%s)" % (fn.ret, fn.key, ", ".join(params) if params else "void")
    out.append(proto)
    out.append("CONTRACT_%s(%s)" % (fn.key, ", ".join(cnames)))
    out.append("{" + fn.extra_pre + body + fn.extra_post + "}")
    if fn.dummy_ret is not None:
        out.append("#undef VERIF_DUMMY_RET")
    text = "\n".join(out) + "\n"
    report = {
        "function": fn.key,
        "cxx_name": fn.name,
        "file": loc.file,
        "lines": [loc.line0, loc.line1],
        "sha256": loc.sha256,
        "rules_fired": fired,
        "loops": nloops,
        "params": pnames,
        "cxx_header": " ".join(loc.header.split())[:400],
        "c_prototype": proto,
    }
    return text, report


C_KEYWORDS = {"if", "for", "while", "switch", "return", "sizeof", "do", "else", "case", "assert", "defined"}
LIBC_OK = {"memcpy", "memset", "memmove", "malloc", "calloc", "free", "truncf", "trunc", "truncl", "floor", "floorf", "ceil", "ceilf",
           "round", "roundf", "lrint", "lrintf", "lround", "lroundf", "fabs", "fabsf", "fmin", "fminf", "fmax", "fmaxf", "sqrt", "sqrtf",
           "rint", "rintf", "nearbyint", "nearbyintf", "fmod", "fmodf", "_pdep_u64", "ipow", "round_pow2"}


def map_cxx_type(t, subst):
    """C++ parameter / return type -> C type through the unit's substitution table; None if it cannot be expressed."""
    t = " ".join(t.split())
    try:
        t, _ = X.r_subst(t, [e if len(e) > 3 else (e[0], e[1], 0) for e in [(x[0], x[1], 0) + tuple(x[3:]) for x in subst]])
    except ExtractionError:
        return None
    t, _ = X.r_std(t)
    t = re.sub(r"\b(COVFIE_DEVICE|static|constexpr|inline|const|typename)\b", " ", t)
    ref = "&" in t
    t = re.sub(r"\[\[[^\]]*\]\]", " ", t)          # attributes such as [[noreturn]]
    t = t.replace("&", " ")
    t = " ".join(t.split())
    if ref and re.match(r"^[A-Z_0-9]+_T$", t) is None and t not in ("size_t", "uint32_t", "uint64_t", "float", "double", "int", "unsigned", "char *"):
        pass
    if not re.match(r"^[A-Za-z_]\w*( ?\*)*$", t):
        return None
    return t


def auto_helper(name, parent, known_subst):
    """Try to extract a helper function `name` that `parent` calls and that lives in the same file/struct."""
    loc = None
    found_scopes = None
    cands = [parent.scopes[:k] for k in range(len(parent.scopes), -1, -1)] + [["namespace detail"], ["namespace covfie::utility"], ["namespace covfie::utility::detail"]]
    for scopes in cands:
        try:
            loc = X.locate(parent.file, scopes, name)
            found_scopes = scopes
            break
        except ExtractionError:
            continue
    if loc is None:
        return None
    hdr = X.blank_comments_and_strings(loc.header)
    if re.search(r"\btemplate\b", hdr):
        raise ExtractionError("helper %s called by %s is a function template: not extractable" % (name, parent.key))
    i = hdr.rindex(name)
    known_subst = list(known_subst) + scope_aliases(Fn(name, parent.file, found_scopes, name, ret="void", ptypes=[], subst=known_subst))
    ret = map_cxx_type(hdr[:i], known_subst)
    if ret is None:
        raise ExtractionError("helper %s: return type %r not expressible in C" % (name, " ".join(hdr[:i].split())))
    ptypes, pnames = [], []
    for part in X.split_args(X.blank_comments_and_strings(loc.params_text)):
        m = re.match(r"(?s)(.*?)([A-Za-z_]\w*)\s*$", part.strip())
        if not m:
            raise ExtractionError("helper %s: cannot parse parameter %r" % (name, part))
        ty = map_cxx_type(m.group(1), known_subst)
        if ty is None:
            raise ExtractionError("helper %s: parameter type %r not expressible in C" % (name, m.group(1).strip()))
        ptypes.append(ty)
        pnames.append(m.group(2))
    vec_types = [v for v in ("IN_VEC_T", "ND_SIZE_T", "OUT_VEC_T", "B_IN_VEC_T") ]
    dummy = "" if ret == "void" else ("0" if re.match(r"^(size_t|uint\d+_t|int|unsigned|float|double|long|char|_Bool)( \*)*$", ret) or ret.endswith("*") else "((%s){0})" % ret)
    is_method = not re.search(r"\bstatic\b", hdr[:i]) and parent.method and "self" in parent.method and len(found_scopes) == len(parent.scopes) and len(parent.scopes) > 0
    return Fn(name, parent.file, found_scopes, name, ret=ret, ptypes=ptypes, pnames=pnames,
              vec_types=vec_types, subst=known_subst, throws=False, auto=True, dummy_ret=dummy,
              members=parent.members, arrays=parent.arrays, arrays2=parent.arrays2, refparams=[n for t, n in zip(ptypes, pnames) if t.endswith("*")],
              mats=parent.mats, propagate=parent.propagate,
              method=(parent.method if is_method else None))


class Unit:
    """A C translation unit: prelude + contracts + extracted functions + harness file."""

    def __init__(self, name, fns, contracts, harness, stubs=(), pre_includes=()):
        self.name = name
        self.fns = fns
        self.contracts = contracts    # path relative to /verif
        self.harness = harness        # path relative to /verif
        self.stubs = stubs
        self.pre_includes = pre_includes

    def emit(self, verif_root, consts_text=""):
        parts = ['#include "%s/stubs/prelude.h"' % verif_root]
        if consts_text:
            parts.append(consts_text)
        for s in self.pre_includes:
            parts.append('#include "%s/%s"' % (verif_root, s))
        parts.append('#include "%s/%s"' % (verif_root, self.contracts))
        for s in self.stubs:
            parts.append('#include "%s/%s"' % (verif_root, s))
        reports = []
        # text of everything hand-written that the unit includes: names defined there are "known"
        known_text = ""
        for rel in ["stubs/prelude.h", "stubs/types.h", "stubs/stream.h", "stubs/backend_io.h", "contracts/binary_io.h", "contracts/layer_common.h",
                    self.contracts, self.harness] + list(self.stubs) + list(self.pre_includes):
            try:
                known_text += open(os.path.join(verif_root, rel)).read()
            except OSError:
                pass
        keys = set(f.key for f in self.fns)
        all_subst = []
        for f in self.fns:
            for e in f.subst:
                if e not in all_subst:
                    all_subst.append(e)
        emitted = []
        queue = list(self.fns)
        done_helpers = set()
        while queue:
            fn = queue.pop(0)
            t, r = emit_fn(fn)
            emitted.append((fn, t, r))
            body = X.blank_comments_and_strings(t)
            for m in re.finditer(r"(?<![A-Za-z_0-9.>])([A-Za-z_]\w*)\s*\(", body):
                nm = m.group(1)
                if nm in keys or nm in C_KEYWORDS or nm in LIBC_OK or nm in done_helpers:
                    continue
                if nm.startswith(("__", "VERIF_", "verif_", "nondet_", "CONTRACT_", "LOOP_", "istream_", "ostream_", "backend_")) or nm.isupper():
                    continue
                if re.search(r"\b" + re.escape(nm) + r"\s*\(", known_text) or re.search(r"#define\s+" + re.escape(nm) + r"\b", known_text):
                    continue
                if re.match(r"^[A-Z_0-9]+$", nm) or nm.endswith("_T") or nm in ("size_t", "uint32_t", "uint64_t", "float", "double", "int", "unsigned", "char"):
                    continue
                done_helpers.add(nm)
                h = auto_helper(nm, fn, all_subst)
                if h is not None:
                    keys.add(nm)
                    queue.append(h)
        # a helper that throws: its callers must propagate (R14) -- re-emit them with the helper in their propagate list
        throwing = [fn.key for fn, t, r in emitted if fn.auto and "VERIF_THROW" in t]
        if throwing:
            again = []
            for fn, t, r in emitted:
                if any(re.search(r"\b" + re.escape(h) + r"\s*\(", t) for h in throwing) and fn.key not in throwing:
                    fn.propagate = list(fn.propagate) + [h for h in throwing if h not in fn.propagate]
                    if fn.dummy_ret is None:
                        fn.dummy_ret = "" if fn.ret == "void" else "0"
                    t, r = emit_fn(fn)
                again.append((fn, t, r))
            emitted = again
        # helpers first (they are called by the functions that discovered them)
        ordered = [e for e in emitted if e[0].auto] + [e for e in emitted if not e[0].auto]
        # forward declarations: helpers are emitted first but may call functions defined later (an implicit
        # declaration would silently give them the return type int)
        parts.append("/* forward declarations */")
        for fn, t, r in ordered:
            parts.append(r["c_prototype"] + ";")
        for fn, t, r in ordered:
            if fn.auto:
                r["auto_extracted_helper"] = True
            parts.append(t)
            reports.append(r)
        parts.append('#include "%s/%s"' % (verif_root, self.harness))
        return "\n".join(parts) + "\n", reports
