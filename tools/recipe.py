#!/usr/bin/env python3
"""
Recipes: where a function lives in /repo, its C signature, which rewrite rules
apply (and which must fire), and assembly of extracted functions into a C
translation unit with contract macros woven in.

Woven text per function F with C parameters p1..pn:

    RET F(PARAMS)
    CONTRACT_F(p1, .., pn)        <- macro from contracts/<unit>.h (empty if undefined)
    { <body of /repo, rewritten by the rules> }

and, after the header of the k-th loop of F (textual order):  LOOP_F_k
"""
import re
import extract as X
from extract import ExtractionError


class Fn:
    def __init__(self, key, file, scopes, name, ret, ptypes, occurrence=0,
                 params_hint=None, method=None, subst=(), arrays=(), arrays2=(),
                 members=(), refparams=(), vec_types=(), pack=None, fold=None,
                 throws=False, propagate=(), dummy_ret=None, must=None,
                 call_index=(), lambda_marker=None, pnames=None, static_fn=True,
                 byref_return=False, extra_pre="", extra_post="", kind="function",
                 expr_rx=None, expr_in_header=False, drop=(), subst_post=(), ctor=False, brace_call=None):
        self.__dict__.update(locals())
        del self.__dict__["self"]
        self.must = dict(must or {})


def emit_fn(fn):
    """Returns (c_text, report)."""
    if fn.kind == "lambda":
        loc = X.locate_lambda_body(fn.file, fn.scopes, fn.name, fn.lambda_marker)
    elif fn.kind == "expr":
        loc = X.locate_expr(fn.file, fn.scopes, fn.name, fn.expr_rx,
                            occurrence=fn.occurrence, in_header=fn.expr_in_header,
                            params_hint=fn.params_hint)
    else:
        loc = X.locate(fn.file, fn.scopes, fn.name, fn.occurrence, fn.params_hint)
    fired = {}
    body = loc.body

    def note(rule, n):
        fired[rule] = fired.get(rule, 0) + (n if isinstance(n, int) else len(n))

    for pat in fn.drop:
        body, n = re.subn(pat, "/* dropped by recipe */", body)
        note("drop", n)
        if n == 0:
            raise ExtractionError("%s: drop pattern %r did not fire" % (fn.key, pat))

    if fn.kind == "expr":
        body = "return " + body + ";"
    if fn.ctor:
        init, n = X.ctor_init_statements(loc.header)
        note("R21_ctor_init", n)
        body = "\n/* R21: mem-initialisers */\n" + init + body

    body, hoisted = X.r_hoist_statics(body, fn.key)
    note("R18_hoist_static", len(hoisted))
    # other hidden-state keywords are not rewritten: they stay and fail the C compile -> exit 2,
    # except 'mutable' which check_residue reports.
    if fn.throws or re.search(r"\bthrow\b", X.blank_comments_and_strings(body)):
        body, n = X.r_throw(body); note("R9_throw", n)
    body, n = X.r_cast(body); note("R1_cast", n)
    body, n = X.r_sizeof_decltype(body); note("R13_decltype", n)
    body, f = X.r_subst(body, list(fn.subst)); note("R4_subst", sum(c for _, c in f))
    body, n = X.r_std(body); note("R2_std", n)
    body, n = X.r_auto(body); note("R22_auto", n)
    body, n = X.r_functional_cast(body); note("R1b_functional_cast", n)
    body, n = X.r_brace_scalar_init(body); note("R1c_brace_init", n)
    body, n = X.r_if_constexpr(body); note("R6_if_constexpr", n)
    if fn.pack:
        body, n = X.r_pack_return(body, *fn.pack); note("R8_pack", n)
        body, n = X.r_fold_or(body, fn.pack[0], fn.pack[1]); note("R8_fold", n)
    if fn.fold:
        body, n = X.r_fold_or(body, *fn.fold); note("R8_fold", n)

    if fn.brace_call:
        body, n = X.r_brace_call_arg(body, *fn.brace_call); note("R8b_brace_call", n)
    if fn.subst_post:
        body, f = X.r_subst(body, list(fn.subst_post)); note("R4_subst", sum(c for _, c in f))
    if fn.byref_return:
        # R20: a function returning a C++ reference returns the address of the designated object
        body, n = X.r_byref_return(body); note("R20_byref_return", n)
        if n == 0:
            raise ExtractionError("%s: no return statement for by-reference return" % fn.key)

    # parameter names from the C++ header
    if fn.pnames is not None:
        pnames = list(fn.pnames)
    else:
        pnames = X.param_names(loc.params_text)
    if len(pnames) != len(fn.ptypes):
        raise ExtractionError("%s: %d parameters in /repo, recipe expects %d (%r)"
                              % (fn.key, len(pnames), len(fn.ptypes), loc.params_text))
    # unnamed parameters get a fixed name; parameters with ptype None are tag types and are dropped
    pnames = [p if p else "verif_unnamed%d" % i for i, p in enumerate(pnames)]
    keep = [i for i, t in enumerate(fn.ptypes) if t is not None]
    ptypes = [fn.ptypes[i] for i in keep]
    pnames = [pnames[i] for i in keep]

    # array-typed identifiers: declared in recipe, parameters of vec types, locals of vec types
    arrays = set(fn.arrays)
    refs = set(fn.refparams)
    for ty, nm in zip(ptypes, pnames):
        base = ty.replace("const", "").replace("*", "").strip()
        if base in fn.vec_types and "*" not in ty:
            arrays.add(nm)
        if ty.rstrip().endswith("*") and ty.rstrip().endswith("/*ref*/ *"):
            refs.add(nm)
    for m in re.finditer(r"__auto_type\s+([A-Za-z_]\w*)\s*=\s*(backend_at|verif_b_table)\b", body):
        arrays.add(m.group(1))   # object copy of a covfie::array returned by the backend
    if fn.vec_types:
        decl = re.compile(r"\b(" + "|".join(re.escape(v) for v in fn.vec_types) + r")\s+([A-Za-z_]\w*)\s*[;=]")
        for m in decl.finditer(body):
            arrays.add(m.group(2))
    for cal in fn.call_index:
        body, n = X.r_call_index(body, cal); note("R19_call_index", n)
    body, n = X.r_index2(body, sorted(fn.arrays2)); note("R19_index2", n)
    body, n = X.r_index(body, sorted(arrays)); note("R19_index", n)
    body, n = X.r_refparam(body, sorted(refs)); note("R11_refparam", n)
    for nm in sorted(refs):   # address of a reference parameter is the pointer itself
        body, n = re.subn(r"&\s*" + re.escape(nm) + r"\b(?!\s*(->|\.|\[))", nm, body); note("R11_refparam_addr", n)
    if fn.method:
        body, n = re.subn(r"\*\s*this\b", "(*self)", body); note("R11_this", n)
        body, n = re.subn(r"\bthis\b", "self", body); note("R11_this", n)
    body, n = X.r_members(body, fn.members); note("R11_member", n)
    if fn.propagate:
        body, n = X.r_propagate(body, fn.propagate); note("R14_propagate", n)
    body, nloops = X.weave_loops(body, fn.key)
    for rule, mn in fn.must.items():
        if fired.get(rule, 0) < mn:
            raise ExtractionError("%s: must-fire rule %s fired %d < %d times"
                                  % (fn.key, rule, fired.get(rule, 0), mn))
    X.check_residue(body, fn.key)

    params = []
    if fn.method:
        params.append(fn.method)
    for ty, nm in zip(ptypes, pnames):
        params.append("%s %s" % (ty.replace("/*ref*/ ", ""), nm))
    cnames = (["self"] if fn.method else []) + pnames
    out = []
    out.append("/* ---- %s : %s:%d-%d sha256=%s ---- */" % (fn.key, loc.file, loc.line0, loc.line1, loc.sha256[:16]))
    for _, mangled, decl in hoisted:
        out.append(decl)
    if fn.dummy_ret is not None:
        out.append("#define VERIF_DUMMY_RET %s" % fn.dummy_ret)
    out.append("#ifndef CONTRACT_%s\n#define CONTRACT_%s(...)\n#endif" % (fn.key, fn.key))
    for k in range(nloops):
        out.append("#ifndef LOOP_%s_%d\n#define LOOP_%s_%d\n#endif" % (fn.key, k, fn.key, k))
    out.append("%s %s(%s)" % (fn.ret, fn.key, ", ".join(params) if params else "void"))
    out.append("CONTRACT_%s(%s)" % (fn.key, ", ".join(cnames)))
    out.append("{" + fn.extra_pre + body + fn.extra_post + "}")
    if fn.dummy_ret is not None:
        out.append("#undef VERIF_DUMMY_RET")
    text = "\n".join(out) + "\n"
    report = {
        "function": fn.key,
        "cxx_name": fn.name,
        "file": loc.file,
        "lines": [loc.line0, loc.line1],
        "sha256": loc.sha256,
        "rules_fired": fired,
        "loops": nloops,
        "params": pnames,
        "cxx_header": " ".join(loc.header.split())[:400],
    }
    return text, report


class Unit:
    """A C translation unit: prelude + contracts + extracted functions + harness file."""

    def __init__(self, name, fns, contracts, harness, stubs=(), pre_includes=()):
        self.name = name
        self.fns = fns
        self.contracts = contracts    # path relative to /verif
        self.harness = harness        # path relative to /verif
        self.stubs = stubs
        self.pre_includes = pre_includes

    def emit(self, verif_root, consts_text=""):
        parts = ['#include "%s/stubs/prelude.h"' % verif_root]
        if consts_text:
            parts.append(consts_text)
        for s in self.pre_includes:
            parts.append('#include "%s/%s"' % (verif_root, s))
        parts.append('#include "%s/%s"' % (verif_root, self.contracts))
        for s in self.stubs:
            parts.append('#include "%s/%s"' % (verif_root, s))
        reports = []
        for fn in self.fns:
            t, r = emit_fn(fn)
            parts.append(t)
            reports.append(r)
        parts.append('#include "%s/%s"' % (verif_root, self.harness))
        return "\n".join(parts) + "\n", reports
