#!/usr/bin/env python3
"""Apply a textual mutation to a scratch copy of /repo and run a check against it.
usage: mut.py <prop> <relfile> <old> <new> [--only glob] [--tier t]
Prints the check's summary; exit code is the check's exit code."""
import os, shutil, subprocess, sys, tempfile
HERE = os.path.dirname(os.path.abspath(__file__))

def run_mutant(prop, relfile, old, new, extra=(), count=1, quiet=False):
    d = tempfile.mkdtemp(prefix="covfie-mut.", dir="/var/tmp")
    try:
        subprocess.run(["rsync", "-a", "--exclude", "_build", "--exclude", ".git", "/repo/", d + "/"], check=True)
        p = os.path.join(d, relfile)
        s = open(p).read()
        if s.count(old) < 1:
            print("MUTATION DOES NOT APPLY: %r not in %s" % (old, relfile))
            return 3, ""
        s = s.replace(old, new, count)
        open(p, "w").write(s)
        env = dict(os.environ, VERIF_REPO=d)
        q = subprocess.run([sys.executable, os.path.join(HERE, "check.py"), prop, "--no-evidence"] + list(extra),
                           env=env, capture_output=True, text=True)
        return q.returncode, q.stdout + q.stderr
    finally:
        shutil.rmtree(d, ignore_errors=True)

if __name__ == "__main__":
    prop, relfile, old, new = sys.argv[1:5]
    rc, out = run_mutant(prop, relfile, old, new, sys.argv[5:])
    lines = out.splitlines()
    v = [l for l in lines if l.startswith("VIOLATION")]
    for l in lines:
        if not l.startswith("VIOLATION") and not l.startswith("KNOWN"):
            print(l)
    print("violations: %d" % len(v))
    for l in v[:6]:
        print(l)
    print("exit", rc)
    sys.exit(rc)
