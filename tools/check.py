#!/usr/bin/env python3
"""
Per-property driver:  python3 tools/check.py <Cxx> [--tier quick|thorough]

  exit 0  every obligation of every cell discharged (and vacuity guards hold),
          or every refuted obligation matches an entry of known_findings.txt
  exit 1  some obligation refuted and not listed: prints
          VIOLATION property=<id> replay=<path> [no-failing-input-found]
  exit 2  undecided (extraction failure, C compile error, time-out, tool error)

Everything is rebuilt from /repo's working tree on every run.
"""
import argparse
import concurrent.futures as cf
import fnmatch
import hashlib
import json
import os
import re
import shutil
import subprocess
import sys
import tempfile
import time

HERE = os.path.dirname(os.path.abspath(__file__))
VERIF = os.path.dirname(HERE)
sys.path.insert(0, HERE)

import cbmc_run
import extract
import units as U
import props as P
import replay as R

REPO = extract.REPO


def load_known():
    path = os.path.join(VERIF, "known_findings.txt")
    findings = []
    if os.path.exists(path):
        for line in open(path):
            line = line.strip()
            if not line or line.startswith("#"):
                continue
            if line.startswith("finding:"):
                m = re.match(r"finding:\s*property=(\S+)\s+cell=(\S+)\s+obligation=(\S+)\s*::\s*(.*)$", line)
                if m:
                    findings.append({"property": m.group(1), "cell": m.group(2),
                                     "obligation": m.group(3), "what": m.group(4)})
    return findings


def known_match(findings, pid, cell_id, oblig):
    for f in findings:
        if f["property"] == pid and fnmatch.fnmatch(cell_id, f["cell"]) and re.fullmatch(f["obligation"], oblig):
            return f
    return None


def repo_state():
    try:
        head = subprocess.run(["git", "-C", REPO, "rev-parse", "HEAD"], capture_output=True, text=True).stdout.strip()
        dirty = subprocess.run(["git", "-C", REPO, "status", "--porcelain", "--untracked-files=no"], capture_output=True, text=True).stdout.strip()
        return {"head": head, "dirty": bool(dirty)}
    except Exception:
        return {}


def main():
    ap = argparse.ArgumentParser()
    ap.add_argument("prop")
    ap.add_argument("--tier", default=os.environ.get("VERIF_TIER", "quick"), choices=["quick", "thorough"])
    ap.add_argument("--jobs", type=int, default=int(os.environ.get("VERIF_JOBS", "14")))
    ap.add_argument("--keep", action="store_true")
    ap.add_argument("--only", default=None, help="glob on cell ids (debugging; evidence marks the run partial)")
    ap.add_argument("--no-evidence", action="store_true")
    ap.add_argument("-v", "--verbose", action="store_true")
    args = ap.parse_args()
    pid = args.prop
    seed = int(os.environ.get("VERIF_SEED", "0") or 0)
    t0 = time.time()
    spec = P.PROPS.get(pid)
    if spec is None:
        print("unknown or not-applicable property %s" % pid)
        return 2
    outdir = os.path.join(VERIF, "out", pid)
    shutil.rmtree(outdir, ignore_errors=True)
    os.makedirs(outdir, exist_ok=True)
    scratch = tempfile.mkdtemp(prefix="covfie-verif.", dir="/var/tmp")
    try:
        return run(pid, spec, args, seed, t0, outdir, scratch)
    finally:
        if not args.keep:
            shutil.rmtree(scratch, ignore_errors=True)
        else:
            print("scratch kept:", scratch)


def run(pid, spec, args, seed, t0, outdir, scratch):
    tier = args.tier
    undecided = []
    # ---- constants evaluated by the real compiler from the real headers
    consts_text = ""
    consts = {}
    if spec.get("consts"):
        try:
            consts, consts_text = P.eval_consts(scratch)
        except extract.ExtractionError as e:
            print("UNDECIDED: constant evaluation from /repo failed: %s" % e)
            write_evidence(pid, spec, args, seed, t0, [], [], [str(e)], [], {}, partial=True)
            return 2
    # ---- extraction
    cells = spec["cells"](tier, consts)
    if args.only:
        cells = [c for c in cells if fnmatch.fnmatch(c.id, args.only)]
    unit_names = sorted(set(c.unit for c in cells))
    unit_paths = {}
    fn_reports = {}
    extraction_errors = []
    for un in unit_names:
        u = U.get_unit(un, consts)
        try:
            text, reps = u.emit(VERIF, consts_text)
        except extract.ExtractionError as e:
            extraction_errors.append("%s: %s" % (un, e))
            continue
        p = os.path.join(scratch, un + ".c")
        open(p, "w").write(text)
        shutil.copy(p, os.path.join(outdir, un + ".extracted.c"))
        unit_paths[un] = p
        fn_reports[un] = reps
    if extraction_errors:
        for e in extraction_errors:
            print("UNDECIDED: extraction failure: %s" % e)
    # ---- run cells
    results = []
    runnable = [c for c in cells if c.unit in unit_paths]
    for c in cells:
        if c.unit not in unit_paths:
            results.append({"cell": c.id, "unit": c.unit, "status": "undecided", "kind": c.kind,
                            "reason": "unit not extracted", "obligations": 0, "discharged": 0,
                            "failed": [], "attempts": [], "wall_s": 0, "solver_s": 0, "backend": None,
                            "bound": c.bound, "note": c.note, "defines": c.defines})
    with cf.ThreadPoolExecutor(max_workers=args.jobs) as ex:
        futs = {ex.submit(cbmc_run.run_cell_with_fallback, c, unit_paths[c.unit], os.path.join(scratch, "cells", c.id), None): c
                for c in runnable}
        for f in cf.as_completed(futs):
            c = futs[f]
            try:
                r = f.result()
            except Exception as e:  # tool crash -> undecided
                r = {"cell": c.id, "unit": c.unit, "status": "undecided", "kind": c.kind,
                     "reason": "driver exception: %r" % e, "obligations": 0, "discharged": 0,
                     "failed": [], "attempts": [], "wall_s": 0, "solver_s": 0, "backend": None,
                     "bound": c.bound, "note": c.note, "defines": c.defines}
            r["_cell"] = c
            results.append(r)
    results.sort(key=lambda r: r["cell"])
    # ---- supporting static facts
    static_facts = []
    if spec.get("static_facts"):
        static_facts = spec["static_facts"](tier, scratch)
    # ---- verdicts
    known = load_known()
    violations = []
    known_hits = []
    for r in results:
        c = r.get("_cell")
        if r["status"] == "refuted":
            for fl in r["failed"]:
                ob = fl["property"]
                k = known_match(known, pid, r["cell"], ob)
                if k:
                    known_hits.append((k, r["cell"], ob))
                    continue
                violations.append((r, fl))
        elif r["status"] == "undecided":
            if c is not None and c.optional:
                r["note"] = (r.get("note") or "") + " [optional recorded attempt: undecided outcome does not affect the verdict]"
                continue
            undecided.append("%s: %s" % (r["cell"], r.get("reason", "")))
    for fact in static_facts:
        if fact.get("status") == "violated":
            k = known_match(known, pid, "static:" + fact["name"], fact.get("obligation", fact["name"]))
            if k:
                known_hits.append((k, "static:" + fact["name"], fact["name"]))
            else:
                violations.append(({"cell": "static:" + fact["name"], "unit": "static", "defines": {}, "_cell": None,
                                    "backend": fact.get("tool"), "cmds": [fact.get("cmd", "")]},
                                   {"property": fact.get("obligation", fact["name"]), "description": fact.get("detail", ""),
                                    "trace": [], "static": True}))
        elif fact.get("status") == "undecided":
            undecided.append("static:%s: %s" % (fact["name"], fact.get("detail", "")))

    # ---- replay + report: one replay file and one VIOLATION line per cell (all failed obligations are listed in it)
    vlines = []
    by_cell = {}
    for r, fl in violations:
        by_cell.setdefault(r["cell"], (r, []))[1].append(fl)
    nrep = 0
    for cid in sorted(by_cell):
        r, fls = by_cell[cid]
        c = r.get("_cell")
        # prefer a functional obligation (postcondition / assertion) with a trace for the replay
        fls_sorted = sorted(fls, key=lambda f: (0 if re.search(r"postcondition|assertion", f["property"]) else 1, 0 if f.get("trace") else 1))
        main = fls_sorted[0]
        rp = os.path.join(outdir, "replay_%s.txt" % re.sub(r"[^A-Za-z0-9_.-]", "_", cid))
        nrep += 1
        if nrep <= 4:
            confirmed = R.replay_violation(pid, c, r, main, rp, scratch, all_failed=fls)
        elif nrep <= 16:
            confirmed = R.replay_violation(pid, c, r, main, rp, scratch, all_failed=fls, light=True)
        else:
            confirmed = R.replay_violation(pid, None, r, main, rp, scratch, all_failed=fls)
        vlines.append("FAILED-OBLIGATION: property=%s cell=%s obligation=%s (%d failed obligations in this cell; listed in the replay file)" % (pid, cid, main["property"], len(fls)))
        line = "VIOLATION property=%s replay=%s" % (pid, rp)
        if not confirmed:
            line += " no-failing-input-found"
        vlines.append(line)
    printed_known = set()
    for k, cid, ob in known_hits:
        key = (k["cell"], k["obligation"])
        if key in printed_known:
            continue
        printed_known.add(key)
        print("KNOWN-FINDING: property=%s %s [cell %s obligation %s]" % (pid, k["what"], cid, ob))

    partial = bool(args.only)
    ev = write_evidence(pid, spec, args, seed, t0, results, static_facts, undecided, violations,
                        fn_reports, partial=partial, known_hits=known_hits, extraction_errors=extraction_errors)
    # ---- summary
    npass = sum(1 for r in results if r["status"] == "pass")
    print("%s tier=%s cells=%d pass=%d refuted=%d undecided=%d obligations(proof)=%d discharged=%d bounded_obligations=%d wall=%.1fs"
          % (pid, tier, len(results), npass, sum(1 for r in results if r["status"] == "refuted"),
             sum(1 for r in results if r["status"] == "undecided"),
             ev["coverage"]["obligations"], ev["coverage"]["discharged"],
             ev["coverage"].get("bounded_obligations", 0), time.time() - t0))
    if args.verbose:
        for r in results:
            print("  %-45s %-9s %-7s %6.1fs ob=%d %s" % (r["cell"], r["status"], r.get("backend"), r.get("wall_s") or 0, r.get("obligations", 0),
                  ",".join(f["property"] for f in r.get("failed", [])[:6])))
    for u in undecided:
        print("UNDECIDED: %s" % u[:600])
    for l in vlines:
        print(l)
    if any(l.startswith("VIOLATION") for l in vlines):
        return 1
    if undecided or extraction_errors:
        return 2
    return 0


def scan_assumes(unit_names):
    """Mechanical scan (DESIGN 4.3): every __CPROVER_assume in the hand-written files of the units of this run.
    Assumes are only allowed in harness preconditions (lemmas/) and dependency stubs (stubs/, contracts/ stubs)."""
    import glob
    files = set()
    for un in unit_names:
        try:
            u = U.get_unit(un, {})
        except Exception:
            continue
        for rel in [u.contracts, u.harness] + list(u.stubs) + list(u.pre_includes):
            files.add(os.path.join(VERIF, rel))
    for extra in ("stubs/prelude.h", "stubs/stream.h", "stubs/backend.h", "stubs/backend_io.h", "contracts/layer_common.h", "contracts/binary_io.h"):
        files.add(os.path.join(VERIF, extra))
    out = []
    for f in sorted(files):
        try:
            for i, line in enumerate(open(f), 1):
                if "__CPROVER_assume" in line:
                    out.append("%s:%d: %s" % (os.path.relpath(f, VERIF), i, line.strip()[:160]))
        except OSError:
            pass
    return out


def recorded_seeded(pid):
    """Outcome of this property's check on the seeded changes, AS RECORDED by the last run of tools/seeded_run_all.py
    (seeded/results.json); not re-executed by this run -- it tests the machinery and is not evidence for the property."""
    path = os.path.join(VERIF, "seeded", "results.json")
    try:
        data = json.load(open(path))
    except Exception:
        return {"note": "no recorded run"}
    out = []
    for sid in sorted(data):
        r = data[sid].get(pid) if isinstance(data[sid], dict) else None
        if r:
            out.append({"seeded_change": sid, "check_exit": r.get("exit"), "violations": r.get("violations"),
                        "replayed_on_real_code": r.get("replayed_on_real_code"),
                        "expected": "exit 0 (harmless refactoring)" if sid.startswith("N") else "exit 1"})
    return {"recorded_at_mtime": int(os.path.getmtime(path)), "not_re_executed_in_this_run": True, "entries": out}


def write_evidence(pid, spec, args, seed, t0, results, static_facts, undecided, violations,
                   fn_reports, partial=False, known_hits=(), extraction_errors=()):
    proof = [r for r in results if r.get("kind") == "proof"]
    bounded = [r for r in results if r.get("kind") == "bounded"]
    cells_out = []
    for r in results:
        cells_out.append({
            "cell": r["cell"], "unit": r.get("unit"), "kind": r.get("kind"), "status": r["status"],
            "template_arguments": r.get("defines"), "flavour": r.get("flavour"),
            "entry": r.get("entry"), "enforce_contract": r.get("enforce"),
            "calls_replaced_by_contract": r.get("replace"),
            "obligations": r.get("obligations", 0), "discharged": r.get("discharged", 0),
            "loop_contract_obligations": r.get("loop_contract_obligations", 0),
            "loops_closed_by": r.get("closes_loops", ""),
            "backend": r.get("backend"), "solver_s": r.get("solver_s"), "wall_s": r.get("wall_s"),
            "attempts": r.get("attempts"), "bound": r.get("bound"), "note": r.get("note"),
            "reason": r.get("reason", ""),
            "failed": [f["property"] + " : " + f["description"] for f in r.get("failed", [])],
        })
    samples = []
    for r in results[:6]:
        for s in (r.get("sample_obligations") or [])[:2]:
            samples.append({"cell": r["cell"], "obligation": s["property"], "description": s["description"], "status": s["status"]})
    if not samples:
        samples = [{"note": "no obligations generated in this run"}]
    be = {}
    for r in results:
        if r.get("backend"):
            be[r["backend"]] = be.get(r["backend"], 0) + r.get("obligations", 0)
    kf_cells = {}
    for k, c, o in known_hits:
        kf_cells[c] = kf_cells.get(c, 0) + 1
    # obligations refuted by a listed known finding are reported separately and not counted
    ob_p = sum(r.get("obligations", 0) - kf_cells.get(r["cell"], 0) for r in proof)
    di_p = sum(r.get("discharged", 0) for r in proof)
    ev = {
        "property_id": pid,
        "tier": args.tier,
        "seed": seed,
        "level": "proof",
        "coverage": {
            "obligations": ob_p,
            "discharged": di_p,
            "checker_cmd": "goto-cc <unit>.c --function <harness>; goto-instrument --dfcc <harness> --enforce-contract <f> [--replace-call-with-contract <g>] [--apply-loop-contracts]; cbmc --no-standard-checks <checks> [--cvc5|--z3|--sat-solver cadical] (exact commands per cell in out/%s/cells.json)" % pid,
            "trusted_base": spec.get("trusted_base", []) + P.GLOBAL_TRUSTED,
            "samples": samples,
            "explanation": spec.get("explanation", ""),
            "functions_under_contract": fn_reports,
            "cells": cells_out,
            "obligations_by_backend": be,
            "solver_seconds_total": round(sum((r.get("solver_s") or 0) for r in results), 2),
            "bounded_obligations": sum(r.get("obligations", 0) for r in bounded),
            "bounded_discharged": sum(r.get("discharged", 0) for r in bounded),
            "bounded": [{"cell": r["cell"], "bound": r.get("bound"), "obligations": r.get("obligations", 0),
                         "discharged": r.get("discharged", 0), "status": r["status"]} for r in bounded],
            "undecided": list(undecided),
            "extraction_errors": list(extraction_errors),
            "supporting_static_facts": static_facts,
            "known_finding_obligations": len(known_hits),
            "known_findings_matched": [{"cell": c, "obligation": o, "what": k["what"]} for k, c, o in known_hits],
            "assume_statements_scanned": scan_assumes(sorted(set(r.get("unit") for r in results if r.get("unit")))),
            "obligation_counting": "obligations = every property cbmc generated for the cell: contract pre/postconditions, frame (assigns) conditions, loop-invariant base/step/decreases, unwinding assertions, safety checks (also those inside contract expressions), library asserts, dfcc bookkeeping; the reachability canary is excluded and must be refuted",
            "not_covered": spec.get("not_covered", []),
            "recorded_seeded_results": recorded_seeded(pid),
            "partial_run": partial,
            "repo": repo_state(),
        },
        "assumptions": spec.get("assumptions", []) + P.GLOBAL_ASSUMPTIONS,
        "wall_s": round(time.time() - t0, 2),
        "violations": len(violations),
    }
    if not args.no_evidence:
        os.makedirs(os.path.join(VERIF, "evidence"), exist_ok=True)
        with open(os.path.join(VERIF, "evidence", pid + ".json"), "w") as f:
            json.dump(ev, f, indent=1, sort_keys=False)
    if True:
        # full per-cell detail (commands, all obligations) next to the replay files
        detail = []
        for r in results:
            d = {k: v for k, v in r.items() if k not in ("_cell", "failed")}
            d["failed"] = [{k: v for k, v in f.items() if k != "trace"} for f in r.get("failed", [])]
            detail.append(d)
        with open(os.path.join(VERIF, "out", pid, "cells.json"), "w") as f:
            json.dump(detail, f, indent=1)
    return ev


if __name__ == "__main__":
    sys.exit(main())
