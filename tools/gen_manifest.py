#!/usr/bin/env python3
"""Writes MANIFEST.json from the property registry (claimed checks) and the not-applicable list."""
import json, os, sys
HERE = os.path.dirname(os.path.abspath(__file__))
sys.path.insert(0, HERE)
import props as P

NA = {
    "C13": "compile-time acceptance/rejection of template compositions is a judgement of the C++ type checker (concepts, overload sets, static_asserts); there is no function body to put a contract on, CBMC cannot parse the headers, and extraction to C removes exactly what is under test",
    "C17": "template plumbing (nth_backend/backend_depth recursion, enable_if-selected make_parameter_pack_for overloads, perfect forwarding through recursive parameter_pack constructors, one-line getters): nothing survives extraction to C except `return m_x;`; the order of forwarded packs is not expressible to the verifier",
    "C19": "nd_map is type-level recursion over Tuple::dimensions through std::function and a capturing lambda per level; a C image needs hand-written closure conversion, i.e. a model, which this technique family excludes",
    "C20": "pure template metaprograms evaluated by the compiler; there is no run-time code and no installed deductive verifier accepts C++ templates",
}

def main():
    checks = []
    for pid in sorted(P.PROPS):
        sp = P.PROPS[pid]
        if not sp.get("claimed", True):
            continue
        checks.append({
            "property_id": pid,
            "quick_cmd": "./check %s quick" % pid,
            "thorough_cmd": "./check %s thorough" % pid,
            "evidence_file": "/verif/evidence/%s.json" % pid,
            "replay_cmd_template": "cat {path}",
            "engine": "cbmc-contracts",
            "level_claimed": {"category": "proof", "text": sp["level_text"], "design_ref": sp.get("design_ref", "DESIGN.md section 5")},
            "level_note": sp["level_note"],
            "technique": sp.get("technique", "CBMC code contracts (goto-instrument --dfcc) on C text extracted from /repo on every run"),
        })
    na = [{"property_id": k, "reason": v} for k, v in sorted(NA.items()) if k not in P.PROPS or not P.PROPS[k].get("claimed", True)]
    allp = ["C%02d" % i for i in range(1, 21)]
    NOT_YET = {
        "C05": "not claimed: the per-element conversion bodies (make_*_copy lambdas) are not under contract yet; the parts of C05 that reduce to C01/C14/C18 (index maps, allocation sizes incl. both Hilbert expressions) are verified there; nd_map coverage (C19) would remain an assumption",
        "C06": "not claimed as a whole: the array backend's write_binary/read_binary and the header/footer primitives are under contract (cells run under C08/thorough C15), but the per-layer framing functions and the round-trip lemma are not built yet",
        "C07": "not claimed: width portability of the array payload (both on-disk widths in one reader cell) is verified under C08; interpolator pass-through serialisers and the golden-grammar lemmas per layer are not built yet",
        "C09": "not claimed: affine algebra (matrix/vector operator() rewriting, rule R17) not built yet",
    }
    for pid in allp:
        claimed = pid in P.PROPS and P.PROPS[pid].get("claimed", True)
        if not claimed and pid not in NA:
            na.append({"property_id": pid, "reason": NOT_YET.get(pid, "not built in this session; no claim is made")})
    for pid in []:
        if pid not in P.PROPS and pid not in NA:
            na.append({"property_id": pid, "reason": "not built yet in this session (planned in DESIGN.md section 5); no claim is made"})
    m = {
        "version": 1,
        "setup_cmd": "true",
        "hooks": {
            "guard": "COVFIE_VERIF",
            "enable": "no hooks: contracts live in /verif and are woven into text extracted from /repo on every run; nothing in /repo is guarded",
            "baseline_off_cmd": "sh /verif/tools/baseline.sh",
            "source_commits": [],
            "add_only": True,
        },
        "engines": [{
            "name": "cbmc-contracts", "path": "/verif/tools/check.py",
            "serves_properties": [c["property_id"] for c in checks],
            "kind_free_text": "mechanical extraction of covfie function bodies to C (tools/extract.py, rules R1-R20), contracts in /verif/contracts woven in, goto-instrument --dfcc per function, cbmc with SAT/SMT portfolio, native replay of counterexamples on the real headers",
        }],
        "checks": checks,
        "not_applicable": sorted(na, key=lambda x: x["property_id"]),
        "notes": "exit 2 from a check means undecided (extraction failure, time-out, tool error), never a violation. fix: commits in /repo are listed in known_findings.txt.",
    }
    with open(os.path.join(os.path.dirname(HERE), "MANIFEST.json"), "w") as f:
        json.dump(m, f, indent=2)

if __name__ == "__main__":
    main()
