#!/usr/bin/env python3
"""
Evaluate seeded (deliberately broken) changes against the checks.
  seeded_eval.py confirm <dir>      : independently confirm a candidate (patch applies, suite passes with it,
                                      demo passes without / fails with) in a scratch worktree; prints a JSON verdict
  seeded_eval.py run <id> <prop...> : apply /verif/seeded/<id>/patch.diff to a scratch copy of /repo and run the
                                      named checks against it (VERIF_REPO); prints exit codes / violations
Nothing is ever applied to /repo itself.
"""
import json, os, shutil, subprocess, sys, tempfile
HERE = os.path.dirname(os.path.abspath(__file__))
VERIF = os.path.dirname(HERE)


def sh(cmd, cwd=None, timeout=1800):
    p = subprocess.run(cmd, shell=True, cwd=cwd, capture_output=True, text=True, timeout=timeout)
    return p.returncode, p.stdout + p.stderr


def demo_flags(d):
    meta = os.path.join(d, "meta.json")
    if os.path.exists(meta):
        return json.load(open(meta)).get("demo_flags", "")
    return ""


def confirm(d, flags=""):
    wt = tempfile.mkdtemp(prefix="seedwt.", dir="/tmp")
    os.rmdir(wt)
    res = {"dir": d}
    try:
        rc, out = sh("git -C /repo worktree add --detach %s HEAD" % wt)
        assert rc == 0, out
        def demo(tag):
            rc, out = sh("g++ -std=c++20 %s -I%s/lib/core %s/demo.cpp -o %s/demo_%s 2>&1 | tail -5; timeout 120 %s/demo_%s > /dev/null 2>&1; echo rc=$?" % (flags, wt, d, wt, tag, wt, tag))
            return out.strip().splitlines()[-1]
        res["demo_without"] = demo("clean")
        rc, out = sh("git apply %s/patch.diff" % os.path.abspath(d), cwd=wt)
        res["patch_applies"] = rc == 0
        if rc != 0:
            res["error"] = out[-300:]
            return res
        rc, out = sh("cmake -G Ninja -B _build -S . -DCOVFIE_BUILD_TESTS=ON -DCMAKE_BUILD_TYPE=RelWithDebInfo >/dev/null 2>&1 && cmake --build _build 2>&1 | tail -2 && _build/tests/core/test_core | tail -1 && _build/tests/cpu/test_cpu | tail -1", cwd=wt)
        res["suite_with_patch"] = " | ".join(l for l in out.splitlines() if "PASSED" in l or "FAILED" in l or "error" in l)[:200]
        res["demo_with"] = demo("patched")
        res["confirmed"] = res["demo_without"] == "rc=0" and res["demo_with"] != "rc=0" and res["suite_with_patch"].count("PASSED") == 2 and "FAILED" not in res["suite_with_patch"]
        return res
    finally:
        sh("git -C /repo worktree remove --force %s" % wt)
        shutil.rmtree(wt, ignore_errors=True)


def run(sid, props, tier="quick"):
    d = os.path.join(VERIF, "seeded", sid)
    scratch = tempfile.mkdtemp(prefix="seedrepo.", dir="/var/tmp")
    out = {}
    try:
        sh("git -C /repo archive HEAD | tar -x -C %s" % scratch)
        rc, o = sh("git init -q . && git apply %s/patch.diff" % d, cwd=scratch)
        if rc != 0:
            return {"error": "patch does not apply: " + o[-300:]}
        for p in props:
            env = dict(os.environ, VERIF_REPO=scratch)
            q = subprocess.run([sys.executable, os.path.join(HERE, "check.py"), p, "--tier", tier, "--no-evidence"], env=env, capture_output=True, text=True)
            lines = q.stdout.splitlines()
            viol = [l for l in lines if l.startswith("VIOLATION")]
            und = [l for l in lines if l.startswith("UNDECIDED")]
            confirmed = [l for l in viol if not l.endswith("no-failing-input-found")]
            out[p] = {"exit": q.returncode, "violations": len(viol), "replayed_on_real_code": len(confirmed),
                      "first": (confirmed or viol or und or [""])[0][:300]}
        return out
    finally:
        shutil.rmtree(scratch, ignore_errors=True)


if __name__ == "__main__":
    if sys.argv[1] == "confirm":
        print(json.dumps(confirm(sys.argv[2], sys.argv[3] if len(sys.argv) > 3 else ""), indent=1))
    elif sys.argv[1] == "run":
        print(json.dumps(run(sys.argv[2], sys.argv[3:]), indent=1))
