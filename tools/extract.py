#!/usr/bin/env python3
"""
Mechanical extraction of covfie function bodies from /repo into C text.

The verified text is the text of /repo: a function is located by enclosing
scope + name + brace matching, its body is copied verbatim, and a fixed list of
token-level rewrite rules (DESIGN.md section 4.2) turns C++ spelling into C
spelling.  A rule that a recipe declares must-fire and that does not fire, an
unknown construct, or a function that cannot be located is an ExtractionError
(the driver maps it to exit 2 = undecided, never to a violation).

Nothing here knows what any function is supposed to compute.
"""
import hashlib
import re
import os

REPO = os.environ.get("VERIF_REPO", "/repo")


class ExtractionError(Exception):
    pass


# --------------------------------------------------------------------------
# text utilities
# --------------------------------------------------------------------------

def blank_comments_and_strings(src):
    """Return a copy of src of identical length in which comments, string and
    character literals are replaced by spaces (newlines kept).  Used for
    structure matching only; the emitted text is taken from the original."""
    out = list(src)
    i, n = 0, len(src)
    while i < n:
        c = src[i]
        if src.startswith("//", i):
            j = src.find("\n", i)
            j = n if j < 0 else j
            for k in range(i, j):
                out[k] = " "
            i = j
        elif src.startswith("/*", i):
            j = src.find("*/", i + 2)
            j = n if j < 0 else j + 2
            for k in range(i, j):
                if out[k] != "\n":
                    out[k] = " "
            i = j
        elif c == '"' or c == "'":
            q = c
            j = i + 1
            while j < n and src[j] != q:
                if src[j] == "\\":
                    j += 1
                j += 1
            for k in range(i + 1, min(j, n)):
                if out[k] != "\n":
                    out[k] = " "
            i = j + 1
        else:
            i += 1
    return "".join(out)


def blank_preprocessor(src):
    """Blank out preprocessor directive lines (same length)."""
    res = []
    for line in src.split("\n"):
        if line.lstrip().startswith("#"):
            res.append(" " * len(line))
        else:
            res.append(line)
    return "\n".join(res)


OPEN = {"(": ")", "[": "]", "{": "}"}


def match_close(text, pos):
    """text[pos] is an opening bracket; return index of its partner."""
    o = text[pos]
    c = OPEN[o]
    depth = 0
    i = pos
    n = len(text)
    while i < n:
        ch = text[i]
        if ch == o:
            depth += 1
        elif ch == c:
            depth -= 1
            if depth == 0:
                return i
        i += 1
    raise ExtractionError("unbalanced %r at offset %d" % (o, pos))


def match_angle(text, pos):
    """text[pos] == '<' of a template argument list; return index of '>'.
    Parentheses and brackets inside are skipped as units."""
    assert text[pos] == "<"
    depth = 0
    i = pos
    n = len(text)
    while i < n:
        ch = text[i]
        if ch == "<":
            depth += 1
        elif ch == ">":
            depth -= 1
            if depth == 0:
                return i
        elif ch in "([{":
            i = match_close(text, i)
        elif ch == ";":
            break
        i += 1
    raise ExtractionError("unbalanced '<' at offset %d" % pos)


def flex(pattern):
    """Turn a token string written with single spaces into a regex that
    tolerates any whitespace (incl. newlines inserted by clang-format) between
    tokens and requires identifier boundaries."""
    toks = re.findall(r"[A-Za-z_][A-Za-z_0-9]*|\d+|::|->|<<|>>|\S", pattern)
    parts = []
    for t in toks:
        if re.match(r"[A-Za-z_]", t):
            parts.append(r"\b" + re.escape(t) + r"\b")
        else:
            parts.append(re.escape(t))
    return r"\s*".join(parts)


# --------------------------------------------------------------------------
# locating
# --------------------------------------------------------------------------

class Located:
    def __init__(self, file, start, end, header, body, line0, line1, params_text):
        self.file = file
        self.start = start
        self.end = end
        self.header = header          # C++ declaration text before '{'
        self.body = body              # text between the outer braces (verbatim)
        self.line0 = line0
        self.line1 = line1
        self.params_text = params_text
        self.sha256 = hashlib.sha256((header + "{" + body + "}").encode()).hexdigest()


def _scope_range(blank, lo, hi, scope):
    """scope is e.g. 'struct morton' or 'namespace covfie::utility'."""
    rx = re.compile(flex(scope) + r"[^;{(]*\{")
    m = rx.search(blank, lo, hi)
    while m:
        # reject forward declarations ("struct owning_data_t;") -- excluded by [^;{(]
        ob = m.end() - 1
        cb = match_close(blank, ob)
        if cb <= hi:
            return ob + 1, cb
        m = rx.search(blank, m.end(), hi)
    raise ExtractionError("scope %r not found" % scope)


def locate(relpath, scopes, name, occurrence=0, params_hint=None):
    path = os.path.join(REPO, relpath)
    try:
        src = open(path).read()
    except OSError as e:
        raise ExtractionError("cannot read %s: %s" % (path, e))
    blank = blank_preprocessor(blank_comments_and_strings(src))
    lo, hi = 0, len(src)
    for sc in scopes:
        lo, hi = _scope_range(blank, lo, hi, sc)
    # candidates: name '(' at brace depth 0 relative to [lo,hi)
    rx = re.compile(r"(?<![A-Za-z_0-9:.>~])" + re.escape(name) + r"\s*\(")
    found = []
    pos = lo
    while True:
        m = rx.search(blank, pos, hi)
        if not m:
            break
        pos = m.end()
        # depth check
        depth = 0
        for ch in blank[lo:m.start()]:
            if ch == "{":
                depth += 1
            elif ch == "}":
                depth -= 1
        if depth != 0:
            continue
        op = m.end() - 1
        cp = match_close(blank, op)
        # after ')' : optional const / noexcept, then '{'  (or ':' ctor-init, or ';' declaration)
        k = cp + 1
        tail = re.compile(r"\s*(const\b|noexcept\b)?\s*(const\b|noexcept\b)?\s*")
        k = tail.match(blank, k).end()
        if k < hi and blank[k] == ":" and blank[k:k + 2] != "::":
            # constructor initialiser list: skip to the first '{' at paren depth 0
            j = k + 1
            while j < hi:
                if blank[j] in "(":
                    j = match_close(blank, j)
                elif blank[j] == "{":
                    # could be a brace-init of a member: member{...} followed by ',' or '{'
                    prev = blank[:j].rstrip()
                    if re.search(r"[A-Za-z_0-9>]$", prev) and not prev.endswith(")"):
                        j = match_close(blank, j)
                    else:
                        break
                j += 1
            k = j
        if k >= hi or blank[k] != "{":
            continue
        params_text = src[op + 1:cp]
        if params_hint is not None and not re.search(params_hint, params_text):
            continue
        cb = match_close(blank, k)
        # declaration start: previous ';', '}', '{' or access-specifier ':' at this level
        s = m.start()
        j = s - 1
        adepth = 0
        while j >= lo:
            ch = blank[j]
            if ch == ">":
                adepth += 1
            elif ch == "<":
                adepth -= 1
            elif ch in ";}{" and adepth <= 0:
                break
            elif ch == ":" and adepth <= 0 and blank[j - 1] != ":" and blank[j + 1:j + 2] != ":":
                break
            j -= 1
        ds = j + 1
        found.append((ds, k, cb, params_text))
    if len(found) <= occurrence:
        raise ExtractionError(
            "function %r (occurrence %d) not found in %s scopes %r (%d candidates)"
            % (name, occurrence, relpath, scopes, len(found)))
    ds, k, cb, params_text = found[occurrence]
    header = src[ds:k].strip()
    body = src[k + 1:cb]
    line0 = src.count("\n", 0, ds + len(src[ds:k]) - len(src[ds:k].lstrip())) + 1
    line1 = src.count("\n", 0, cb) + 1
    return Located(relpath, ds, cb + 1, header, body, line0, line1, params_text)


def locate_lambda_body(relpath, scopes, func, marker):
    """Body of the first lambda inside function `func` whose introducer matches
    `marker` (regex on the capture list), e.g. the nd_map callback of
    make_morton_copy.  Returns Located for the lambda."""
    outer = locate(relpath, scopes, func)
    blank = blank_preprocessor(blank_comments_and_strings(outer.body))
    m = re.search(marker, blank)
    if not m:
        raise ExtractionError("lambda %r not found in %s" % (marker, func))
    op = blank.index("(", m.end() - 1)
    cp = match_close(blank, op)
    ob = blank.index("{", cp)
    cb = match_close(blank, ob)
    hdr = outer.body[m.start():ob].strip()
    body = outer.body[ob + 1:cb]
    base = outer.line0 + outer.header.count("\n")
    l0 = base + outer.body.count("\n", 0, m.start())
    l1 = base + outer.body.count("\n", 0, cb)
    return Located(relpath, 0, 0, hdr, body, l0, l1, outer.body[op + 1:cp])


def locate_expr(relpath, scopes, func, start_rx, occurrence=0, in_header=False, params_hint=None):
    """A balanced call expression starting at regex start_rx (which must end
    right before '(') inside function func (body, or header for ctor
    mem-initialisers).  Used for the allocation-size expressions."""
    outer = locate(relpath, scopes, func, 0, params_hint)
    text = outer.header if in_header else outer.body
    blank = blank_preprocessor(blank_comments_and_strings(text))
    ms = list(re.finditer(start_rx, blank))
    if len(ms) <= occurrence:
        raise ExtractionError("expression %r not found in %s" % (start_rx, func))
    m = ms[occurrence]
    op = blank.index("(", m.end() - 1)
    cp = match_close(blank, op)
    expr = text[m.start():cp + 1]
    base = outer.line0 + (0 if in_header else outer.header.count("\n"))
    l0 = base + text.count("\n", 0, m.start())
    l1 = base + text.count("\n", 0, cp)
    return Located(relpath, 0, 0, "/* expression in %s */" % func, expr, l0, l1, "")


# --------------------------------------------------------------------------
# rewrite rules.  Each returns (new_text, fire_count).
# --------------------------------------------------------------------------

def r_cast(text):
    """R1: static_cast<T>(e), reinterpret_cast<T>(e) -> ((T)(e))"""
    count = 0
    rx = re.compile(r"\b(static_cast|reinterpret_cast|const_cast)\s*<")
    while True:
        m = rx.search(text)
        if not m:
            break
        lt = m.end() - 1
        gt = match_angle(text, lt)
        ty = " ".join(text[lt + 1:gt].split())
        op = gt + 1
        while text[op].isspace():
            op += 1
        if text[op] != "(":
            raise ExtractionError("cast without parenthesised operand")
        cp = match_close(text, op)
        inner = text[op + 1:cp]
        text = text[:m.start()] + "((" + ty + ")(" + inner + "))" + text[cp + 1:]
        count += 1
    return text, count


STD_NAMES = ("size_t", "memcpy", "memset", "memmove", "uint32_t", "uint64_t", "ptrdiff_t",
             "uint8_t", "uint16_t", "int32_t", "int64_t", "int8_t", "int16_t",
             # explicitly suffixed <cmath> functions are not overloaded: same function in C
             "truncf", "truncl", "floorf", "floorl", "ceilf", "ceill", "roundf", "roundl", "lrintf", "lrintl",
             "lroundf", "lroundl", "fabsf", "fabsl", "fminf", "fmaxf", "fminl", "fmaxl", "sqrtf", "rintf", "nearbyintf", "fmodf")
STD_OVERLOADED = ("trunc", "floor", "ceil", "round", "rint", "nearbyint", "lrint", "lround", "llrint", "llround",
                  "fabs", "sqrt", "fmin", "fmax", "fmod", "copysign")


def r_strip_ns(text):
    """qualified calls of library-internal helpers: detail::f(..), utility::detail::f(..) -> f(..) (the helper itself is then
    extracted automatically)"""
    return re.subn(r"\b(?:covfie::)?(?:utility::)?detail::(?=[A-Za-z_]\w*\s*\()", "", text)


def r_std(text):
    """R2: drop std:: from names that exist identically in C.
       R3: overloaded <cmath> functions -> VERIF_STDM_<name> (type-generic selection as C++ overload resolution does)."""
    rx = re.compile(r"\bstd::(" + "|".join(STD_NAMES) + r")\b")
    text, n1 = rx.subn(lambda m: m.group(1), text)
    rx = re.compile(r"\bstd::(" + "|".join(STD_OVERLOADED) + r")\s*\(")
    text, n2 = rx.subn(lambda m: "VERIF_STDM_" + m.group(1) + "(", text)
    rx = re.compile(r"\bstd::(min|max)\s*\(")
    text, n3 = rx.subn(lambda m: "VERIF_STD_" + m.group(1) + "(", text)
    text, n4 = re.subn(r"\bnullptr\b", "((void *)0)", text)
    return text, n1 + n2 + n3 + n4


def split_args(inner):
    parts, depth, cur = [], 0, ""
    for ch in inner:
        if ch in "([{<" and not (ch == "<" and False):
            depth += 1 if ch != "<" else 0
        elif ch in ")]}":
            depth -= 1
        if ch == "," and depth == 0:
            parts.append(cur.strip()); cur = ""
        else:
            cur += ch
    if cur.strip():
        parts.append(cur.strip())
    return parts


def r_std_algorithms(text):
    """R16: std::accumulate(b, e, init, std::multiplies<std::size_t>()) -> VERIF_ACCUMULATE_MUL(b, e, init);
            *std::max_element(b, e) -> VERIF_MAX_ELEMENT(b, e);
            X.begin() / std::begin(X) -> X.m_data ; X.end() / std::end(X) -> VERIF_ARRAY_END(X)   (covfie::array ranges)"""
    count = 0
    text, n = re.subn(r"\bstd::begin\s*\(\s*([A-Za-z_][\w.>-]*)\s*\)", r"\1.m_data", text); count += n
    text, n = re.subn(r"\bstd::end\s*\(\s*([A-Za-z_][\w.>-]*)\s*\)", r"VERIF_ARRAY_END(\1)", text); count += n
    text, n = re.subn(r"\b([A-Za-z_][\w]*(?:(?:\.|->)\w+)*)\s*\.\s*c?begin\s*\(\s*\)", r"\1.m_data", text); count += n
    text, n = re.subn(r"\b([A-Za-z_][\w]*(?:(?:\.|->)\w+)*)\s*\.\s*c?end\s*\(\s*\)", r"VERIF_ARRAY_END(\1)", text); count += n
    for name, macro, deref in (("accumulate", "VERIF_ACCUMULATE_MUL", False), ("max_element", "VERIF_MAX_ELEMENT", True)):
        rx = re.compile((r"\*\s*" if deref else "") + r"\bstd::" + name + r"\s*\(")
        pos = 0
        while True:
            m = rx.search(text, pos)
            if not m:
                break
            op = m.end() - 1
            cp = match_close(text, op)
            args = split_args(text[op + 1:cp])
            if name == "accumulate":
                if len(args) != 4 or not re.match(r"std::multiplies\s*<\s*(std::)?size_t\s*>\s*\(\s*\)$", args[3]):
                    raise ExtractionError("std::accumulate with an unsupported operation: %r" % args)
                rep = "%s(%s, %s, %s)" % (macro, args[0], args[1], args[2])
            else:
                if len(args) != 2:
                    raise ExtractionError("std::max_element with a comparator: unsupported")
                rep = "%s(%s, %s)" % (macro, args[0], args[1])
            text = text[:m.start()] + rep + text[cp + 1:]
            pos = m.start() + len(rep)
            count += 1
    return text, count


def locate_call_arg(relpath, scopes, func, call_rx, arg_index=0, in_header=False, params_hint=None, occurrence=0):
    """The arg_index-th argument of the first call matching call_rx (regex ending right before '(') inside function
    func (body, or header for constructor mem-initialisers)."""
    outer = locate(relpath, scopes, func, 0, params_hint)
    text = outer.header if in_header else outer.body
    blank = blank_preprocessor(blank_comments_and_strings(text))
    ms = list(re.finditer(call_rx, blank))
    if len(ms) <= occurrence:
        raise ExtractionError("call %r not found in %s" % (call_rx, func))
    m = ms[occurrence]
    op = blank.index("(", m.end() - 1)
    cp = match_close(blank, op)
    # top-level split on the blanked text, positions preserved
    args, depth, start = [], 0, op + 1
    for i in range(op + 1, cp):
        ch = blank[i]
        if ch in "([{":
            depth += 1
        elif ch in ")]}":
            depth -= 1
        elif ch == "," and depth == 0:
            args.append((start, i)); start = i + 1
    args.append((start, cp))
    if len(args) <= arg_index:
        raise ExtractionError("call %r in %s has only %d arguments" % (call_rx, func, len(args)))
    a, b = args[arg_index]
    expr = text[a:b].strip()
    base = outer.line0 + (0 if in_header else outer.header.count("\n"))
    l0 = base + text.count("\n", 0, a)
    l1 = base + text.count("\n", 0, b)
    return Located(relpath, 0, 0, "/* argument %d of %s in %s */" % (arg_index, call_rx, func), expr, l0, l1, "")


def r_matrix_ops(text, mats):
    """R17: algebra::matrix / algebra::vector element access.
       mats: {identifier: (accessor, kind)} with accessor '.' or '->' and kind 'mat' (two indices) or 'vec' (one index).
       X(i, j) -> X.m_elems[i][j];  X(i) -> X.m_elems[i][0];  this->operator()(i, j) / X.operator()(i, j) likewise."""
    count = 0
    text, n = re.subn(r"\bthis\s*->\s*operator\s*\(\s*\)\s*\(", "VERIF_SELF_ELEM(", text); count += n
    for name, (acc, kind) in mats.items():
        text, n = re.subn(r"(?<![A-Za-z_0-9.>])" + re.escape(name) + r"\s*\.\s*operator\s*\(\s*\)\s*\(", name + "(", text); count += n
    names = dict(mats)
    names["VERIF_SELF_ELEM"] = ("->", "mat")
    rx = re.compile(r"(?<![A-Za-z_0-9.>])(" + "|".join(re.escape(n) for n in names) + r")\s*\(")
    pos = 0
    while True:
        m = rx.search(text, pos)
        if not m:
            break
        name = m.group(1)
        op = m.end() - 1
        cp = match_close(text, op)
        args = split_args(text[op + 1:cp])
        acc, kind = names[name]
        base = "self" if name == "VERIF_SELF_ELEM" else name
        if len(args) == 2:
            rep = "%s%sm_elems[%s][%s]" % (base, acc, args[0], args[1])
        elif len(args) == 1 and kind == "vec":
            rep = "%s%sm_elems[%s][0]" % (base, acc, args[0])
        else:
            pos = m.end()
            continue
        text = text[:m.start()] + rep + text[cp + 1:]
        pos = m.start() + len(rep)
        count += 1
    return text, count


def r_inline_lambdas(text):
    """R24: a local lambda `const auto f = [captures](params) { body };` is inlined at every call `f(args)` as a GNU
    statement expression:  ({ __typeof__(E1) r; P1 p1 = a1; ..; body with `return E;` -> `{ r = (E); goto end; }`; end: r; })
    where E1 is the first returned expression (C++ requires all returns of a lambda to agree in type).  Captures need no
    translation: the inlined body is in the scope of the captured objects (by-value captures are read at the call instead
    of at the definition -- stated).  A `throw` inside the body leaves the ENCLOSING function, as the exception would."""
    count = 0
    rx = re.compile(r"(?:const\s+)?auto\s+([A-Za-z_]\w*)\s*=\s*\[([^\]]*)\]\s*\(")
    while True:
        blank = blank_comments_and_strings(text)
        m = rx.search(blank)
        if not m:
            break
        name = m.group(1)
        op = m.end() - 1
        cp = match_close(blank, op)
        params = text[op + 1:cp].strip()
        k = cp + 1
        mm = re.compile(r"\s*(?:mutable\s*)?(?:->\s*[^{]+?)?\s*\{").match(blank, k)
        if not mm:
            raise ExtractionError("lambda %s: body not found" % name)
        ob = mm.end() - 1
        cb = match_close(blank, ob)
        body = text[ob + 1:cb]
        semi = blank.index(";", cb)
        plist = [p.strip() for p in split_args(params)] if params and params != "void" else []
        pdecl = []
        for p_ in plist:
            pm = re.match(r"(?s)(.*?)([A-Za-z_]\w*)$", p_)
            if not pm:
                raise ExtractionError("lambda %s: cannot parse parameter %r" % (name, p_))
            pdecl.append((pm.group(1).replace("&", " ").strip(), pm.group(2)))
        bb = blank_comments_and_strings(body)
        rets = list(re.finditer(r"\breturn\b", bb))
        first_expr = None
        if rets:
            r0 = rets[0]
            e = r0.end()
            j = e
            while j < len(bb):
                if bb[j] in "([{":
                    j = match_close(bb, j)
                elif bb[j] == ";":
                    break
                j += 1
            first_expr = body[e:j].strip()
        # remove the definition
        text = text[:m.start()] + "/* R24: lambda %s inlined at its call sites */" % name + text[semi + 1:]
        # inline the calls
        crx = re.compile(r"(?<![A-Za-z_0-9.>])" + re.escape(name) + r"\s*\(")
        inst = 0
        pos = 0
        while True:
            blank = blank_comments_and_strings(text)
            c = crx.search(blank, pos)
            if not c:
                break
            cop = c.end() - 1
            ccp = match_close(blank, cop)
            args = split_args(text[cop + 1:ccp]) if text[cop + 1:ccp].strip() else []
            if len(args) != len(pdecl):
                raise ExtractionError("lambda %s: call with %d arguments, %d parameters" % (name, len(args), len(pdecl)))
            inst += 1
            end = "verif_lam_%s_end%d" % (name, inst)
            rv = "verif_lam_%s_ret%d" % (name, inst)
            b2 = body
            if first_expr is not None:
                # return E;  ->  { rv = (E); goto end; }
                outb, q = [], 0
                bb2 = blank_comments_and_strings(b2)
                for r_ in re.finditer(r"\breturn\b", bb2):
                    e = r_.end()
                    j = e
                    while j < len(bb2):
                        if bb2[j] in "([{":
                            j = match_close(bb2, j)
                        elif bb2[j] == ";":
                            break
                        j += 1
                    outb.append(b2[q:r_.start()])
                    outb.append("{ %s = (%s); goto %s; }" % (rv, b2[e:j].strip(), end))
                    q = j + 1
                outb.append(b2[q:])
                b2 = "".join(outb)
                pre = "__typeof__(%s) %s; " % (first_expr, rv)
                post = " %s: ; %s; " % (end, rv)
            else:
                pre, post = "", " (void)0; "
            binds = "".join("%s %s = (%s); " % (t, n, a) for (t, n), a in zip(pdecl, args))
            rep = "({ " + pre + binds + b2 + post + "})"
            text = text[:c.start()] + rep + text[ccp + 1:]
            pos = c.start() + len(rep)
            count += 1
    return text, count


def r_auto(text):
    """R22: `auto x = e;`, `const auto x = e;`, `const auto & x = e;` -> `__auto_type x = e;` (the declared object
    is a copy; reference-ness is dropped, which is unobservable for the read-only uses in the extracted code)."""
    rx = re.compile(r"\b(?:const\s+)?auto\s*(?:const\s*)?&{0,2}\s*([A-Za-z_]\w*)\s*=")
    return rx.subn(lambda m: "__auto_type " + m.group(1) + " =", text)


def r_functional_cast(text):
    """size_t(1) -> ((size_t)(1))  (functional cast of a scalar type)."""
    count = 0
    rx = re.compile(r"(?<![A-Za-z_0-9.>])(size_t|uint32_t|uint64_t|int|unsigned|float|double|AT|IN_SCALAR_T|OUT_SCALAR_T|B_IN_SCALAR_T|CAST_T|IDENT_OUT_T)\s*\((?!\s*\*)")
    pos = 0
    while True:
        m = rx.search(text, pos)
        if not m:
            break
        # do not touch declarations like "size_t (" - none occur; require non-empty operand
        op = m.end() - 1
        cp = match_close(text, op)
        inner = text[op + 1:cp]
        if not inner.strip():
            pos = m.end()
            continue
        rep = "((" + m.group(1) + ")(" + inner + "))"
        text = text[:m.start()] + rep + text[cp + 1:]
        pos = m.start() + len("((" + m.group(1) + ")(")
        count += 1
    return text, count


def r_local_using(text):
    """R26: a function-local alias `using X = T;` -> `typedef T X;` (applied after type rewriting, so T is a C type)"""
    return re.subn(r"\busing\s+([A-Za-z_]\w*)\s*=\s*([^;{}]+?)\s*;", lambda m: "typedef %s %s;" % (m.group(2), m.group(1)), text)


def r_ref_to_array(text):
    """R25: `const T (&name)[K] = e;` (reference to an array, e.g. a hoisted matrix row) -> `const T *name = e;`"""
    return re.subn(r"\b(const\s+)?([A-Za-z_]\w*)\s*\(\s*&\s*([A-Za-z_]\w*)\s*\)\s*\[[^\]]*\]\s*=", lambda m: "%s%s *%s =" % (m.group(1) or "", m.group(2), m.group(3)), text)


def r_local_const_ref(text, vec_types=("IN_VEC_T", "OUT_VEC_T")):
    """R28: a local const reference bound to an lvalue, `const T & name = e;` -> `const T *verif_ref_name = &(e);`
    and every later use of `name` -> `(*verif_ref_name)` (`name[i]` -> `verif_ref_name->m_data[i]` when T is a
    covfie::array type).  Only const references: reads through the alias, no write."""
    count = 0
    rx = re.compile(r"\bconst\s+([A-Za-z_]\w*)\s*&\s*([A-Za-z_]\w*)\s*=\s*([^;{}]+);")
    pos = 0
    while True:
        m = rx.search(text, pos)
        if not m:
            break
        ty, nm, ex = m.group(1), m.group(2), m.group(3).strip()
        decl = "const %s *verif_ref_%s = &(%s);" % (ty, nm, ex)
        rest = text[m.end():]
        if ty in vec_types:
            rest = re.sub(r"(?<![A-Za-z_0-9.>])" + re.escape(nm) + r"\s*\[", "verif_ref_%s->m_data[" % nm, rest)
        rest = re.sub(r"(?<![A-Za-z_0-9.>])" + re.escape(nm) + r"\b(?!\s*\()", "(*verif_ref_%s)" % nm, rest)
        text = text[:m.start()] + decl + rest
        pos = m.start() + len(decl)
        count += 1
    return text, count


def r_brace_scalar_init(text):
    """`T f{1.};` -> `T f = (1.);` for scalar declarations."""
    rx = re.compile(r"\b([A-Za-z_][A-Za-z_0-9]*)\s+([A-Za-z_][A-Za-z_0-9]*)\s*\{([^{};]*)\}\s*;")
    return rx.subn(lambda m: "%s %s = (%s);" % (m.group(1), m.group(2), m.group(3)), text)


def r_subst(text, table):
    """R4/R5/R14/...: recipe-driven token substitutions.
    table: list of (pattern, replacement, min_count[, is_regex])."""
    fired = []
    for ent in table:
        pat, rep, mn = ent[0], ent[1], ent[2]
        is_rx = len(ent) > 3 and ent[3]
        rx = re.compile(pat if is_rx else flex(pat))
        text, n = rx.subn(rep if is_rx else (lambda m, rep=rep: rep), text)
        if n < mn:
            raise ExtractionError("must-fire substitution %r fired %d < %d times" % (pat, n, mn))
        fired.append((pat, n))
    return text, fired


def r_if_constexpr(text):
    """R6: `if constexpr (c)` -> `if (c)`;  R23: a constexpr local object -> const object"""
    text, n = re.subn(r"\bif\s+constexpr\s*\(", "if (", text)
    text, m = re.subn(r"\b(?:static\s+)?constexpr\s+(?=[A-Za-z_])", "const ", text)
    return text, n + m


def r_index(text, names, suffix=".m_data"):
    """covfie::array operator[] : X[e] -> X.m_data[e] for array-typed X
    (X may be preceded by self-> / o-> ).  Bounds assert of operator[] is
    re-established by cbmc --bounds-check on m_data."""
    if not names:
        return text, 0
    count = 0
    rx = re.compile(r"(?<![A-Za-z_0-9])(" + "|".join(re.escape(n) for n in names) + r")\s*\[")
    pos = 0
    while True:
        m = rx.search(text, pos)
        if not m:
            break
        text = text[:m.end() - 1].rstrip() + suffix + "[" + text[m.end():]
        pos = m.end() + len(suffix)
        count += 1
    return text, count


def r_index2(text, names, suffix=".m_data"):
    """arrays of covfie::array: X[e1][e2] -> X[e1].m_data[e2]"""
    if not names:
        return text, 0
    count = 0
    rx = re.compile(r"(?<![A-Za-z_0-9])(" + "|".join(re.escape(n) for n in names) + r")\s*\[")
    pos = 0
    while True:
        m = rx.search(text, pos)
        if not m:
            break
        ob = m.end() - 1
        cb = match_close(text, ob)
        k = cb + 1
        while k < len(text) and text[k].isspace():
            k += 1
        if k < len(text) and text[k] == "[":
            text = text[:cb + 1] + suffix + text[k:]
            count += 1
        pos = cb + 1
    return text, count


def r_call_index(text, callee, suffix=".m_data"):
    """CALL(args)[e] -> CALL(args).m_data[e]"""
    count = 0
    rx = re.compile(r"\b" + re.escape(callee) + r"\s*\(")
    pos = 0
    while True:
        m = rx.search(text, pos)
        if not m:
            break
        cp = match_close(text, m.end() - 1)
        k = cp + 1
        while k < len(text) and text[k].isspace():
            k += 1
        if k < len(text) and text[k] == "[":
            text = text[:cp + 1] + suffix + text[k:]
            count += 1
        pos = cp + 1
    return text, count


def r_members(text, members, obj="self"):
    """R11: implicit this-> on data members."""
    count = 0
    for mname in members:
        rx = re.compile(r"(?<![A-Za-z_0-9.>])" + re.escape(mname) + r"\b")
        text, n = rx.subn(obj + "->" + mname, text)
        count += n
    return text, count


def r_refparam(text, names):
    """R11: reference parameter o.m_x -> o->m_x"""
    count = 0
    for nm in names:
        rx = re.compile(r"(?<![A-Za-z_0-9.>])" + re.escape(nm) + r"\s*\.\s*(?=[A-Za-z_])")
        text, n = rx.subn(nm + "->", text)
        count += n
    return text, count


def r_pack_return(text, idx_name, indices, ctor_dims, ret_type, elem_cast=None):
    """R8: `return {EXPR(Is)...};`  -> explicit list.
    Models the overload resolution of covfie::array<T,ctor_dims>{a_0..a_{K-1}}:
      K == ctor_dims : element-wise (variadic constructor)
      K == 1         : broadcast (array(const scalar_t&))
      otherwise      : ill-formed in C++ -> ExtractionError("ill-formed")"""
    rx = re.compile(r"\breturn\s*\{")
    m = rx.search(text)
    if not m:
        return text, 0
    ob = m.end() - 1
    cb = match_close(text, ob)
    inner = text[ob + 1:cb].strip()
    if not inner.endswith("..."):
        raise ExtractionError("braced return is not a pack expansion: %r" % inner)
    expr = inner[:-3].strip()
    K = len(indices)
    elems = [re.sub(r"\b" + re.escape(idx_name) + r"\b", str(i), expr) for i in indices]
    if K == ctor_dims:
        lst = elems
    elif K == 1:
        lst = ["VERIF_BROADCAST_%d" % q for q in range(ctor_dims)]
        pre = "__typeof__(((%s*)0)->m_data[0]) verif_bc = %s; " % (ret_type, elems[0])
        rep = "{ " + pre + "return (%s){{ %s }}; }" % (ret_type, ", ".join(["verif_bc"] * ctor_dims))
        semi = text.index(";", cb)
        return text[:m.start()] + rep + text[semi + 1:], 1
    else:
        raise ExtractionError(
            "ill-formed in C++: %d initialisers for covfie::array of %d elements" % (K, ctor_dims))
    rep = "return (%s){{ %s }}" % (ret_type, ", ".join(lst))
    return text[:m.start()] + rep + text[cb + 1:], 1


def r_brace_call_arg(text, callee, dims, ctype, illformed="verif_illformed_brace_init()"):
    """R8b: CALL({e0, .., eK-1}) where the parameter is a covfie::array of `dims` elements:
       K == dims -> compound literal; K == 1 -> broadcast; otherwise ill-formed in C++ (reachability asserted)."""
    count = 0
    rx = re.compile(r"\b" + re.escape(callee) + r"\s*\(\s*\{")
    pos = 0
    while True:
        m = rx.search(text, pos)
        if not m:
            break
        ob = m.end() - 1
        cb = match_close(text, ob)
        inner = text[ob + 1:cb]
        # split at top-level commas
        parts, depth, cur = [], 0, ""
        for ch in inner:
            if ch in "([{":
                depth += 1
            elif ch in ")]}":
                depth -= 1
            if ch == "," and depth == 0:
                parts.append(cur.strip()); cur = ""
            else:
                cur += ch
        if cur.strip():
            parts.append(cur.strip())
        K = len(parts)
        if K == dims:
            rep = "(%s){{ %s }}" % (ctype, ", ".join(parts))
        elif K == 1:
            rep = "(%s){{ %s }}" % (ctype, ", ".join(["(" + parts[0] + ")"] * dims))
        else:
            rep = illformed
        text = text[:ob] + rep + text[cb + 1:]
        pos = ob + len(rep)
        count += 1
    return text, count


def r_fold_or(text, idx_name, indices):
    """R8: unary right folds `(EXPR(Idxs) op ...)` for op in | & + * , && || -> explicit expression."""
    count = 0
    pos = 0
    while True:
        m = re.search(r"(\|\||&&|[|&+*,])\s*\.\.\.\s*\)", text[pos:])
        if not m:
            break
        end = pos + m.end() - 1          # index of ')'
        # matching '(' : scan backwards
        depth = 0
        j = end
        while j >= 0:
            if text[j] == ")":
                depth += 1
            elif text[j] == "(":
                depth -= 1
                if depth == 0:
                    break
            j -= 1
        if j < 0:
            raise ExtractionError("fold expression: unbalanced")
        op = m.group(1)
        expr = text[j + 1:pos + m.start()].strip()
        elems = ["(" + re.sub(r"\b" + re.escape(idx_name) + r"\b", str(i), expr) + ")" for i in indices]
        rep = "(" + (" " + op + " ").join(elems) + ")"
        text = text[:j] + rep + text[end + 1:]
        pos = j + len(rep)
        count += 1
    return text, count


def r_throw(text):
    """R9: drop stringstream message assembly, `throw E(...);` -> VERIF_THROW();"""
    count = 0
    # std::stringstream err;
    text, n1 = re.subn(r"\bstd::stringstream\s+(\w+)\s*;", "/* R9: message stream dropped */", text)
    # err << ... ;
    if n1:
        text, n2 = re.subn(r"(?<![A-Za-z_0-9])err\s*<<[^;]*;", "/* R9: message text dropped */", text)
    rx = re.compile(r"\bthrow\b")
    while True:
        m = rx.search(text)
        if not m:
            break
        semi = m.end()
        depth = 0
        while semi < len(text):
            if text[semi] in "([{":
                semi = match_close(text, semi)
            elif text[semi] == ";":
                break
            semi += 1
        text = text[:m.start()] + "VERIF_THROW()" + text[semi:]
        count += 1
    return text, count


def r_propagate(text, callees):
    """R14: after a statement containing a call of a may-throw callee append
    VERIF_PROPAGATE(); (C++ exception propagation)."""
    count = 0
    if not callees:
        return text, 0
    rx = re.compile(r"\b(" + "|".join(re.escape(c) for c in callees) + r")\s*\(")
    pos = 0
    while True:
        m = rx.search(text, pos)
        if not m:
            break
        cp = match_close(text, m.end() - 1)
        # end of enclosing statement: next ';' at depth 0 from cp
        k = cp + 1
        while k < len(text):
            if text[k] in "([{":
                k = match_close(text, k)
            elif text[k] == ";":
                break
            elif text[k] in ")]}":
                pass
            k += 1
        ins = " VERIF_PROPAGATE();"
        if not text[k + 1:].lstrip().startswith("VERIF_PROPAGATE"):
            text = text[:k + 1] + ins + text[k + 1:]
            count += 1
        pos = k + 1
    return text, count


def r_hoist_statics(text, fname):
    """R18: function-local static / thread_local objects are hoisted to file
    scope under a mangled name (dfcc exempts local statics from frame checks)."""
    hoisted = []
    rx = re.compile(r"(?m)^(\s*)((?:static|thread_local)\b(?:\s+(?:static|thread_local|const|constexpr))*)\s+([^;=()\[\]]+?)\s*\b([A-Za-z_]\w*)\s*((?:\[[^\]]*\]\s*)*)(=\s*[^;]*)?;")
    def rep(m):
        quals = m.group(2)
        ty, name, arr, init = m.group(3), m.group(4), m.group(5) or "", m.group(6) or ""
        mangled = "verif_static_%s_%s" % (fname, name)
        tl = "__thread " if "thread_local" in quals else ""
        cq = "const " if re.search(r"\bconst(expr)?\b", quals) else ""
        hoisted.append((name, mangled, "%sstatic %s%s %s%s %s;" % (tl, cq, ty, mangled, arr, init)))
        return m.group(1) + "/* R18: static hoisted to file scope as %s */" % mangled
    text = rx.sub(rep, text)
    for name, mangled, _ in hoisted:
        text = re.sub(r"(?<![A-Za-z_0-9.>])" + re.escape(name) + r"\b", mangled, text)
    return text, hoisted


def r_sizeof_decltype(text):
    """R13: sizeof(decltype(e)) -> sizeof(e); sizeof(std::decay_t<decltype(e)>) -> sizeof(e)"""
    count = 0
    for rx in (re.compile(r"\bstd::decay_t\s*<\s*decltype\s*\("), re.compile(r"\bdecltype\s*\(")):
        while True:
            m = rx.search(text)
            if not m:
                break
            op = m.end() - 1
            cp = match_close(text, op)
            inner = text[op + 1:cp]
            end = cp + 1
            if text[m.start():].startswith("std::decay_t"):
                k = end
                while text[k].isspace():
                    k += 1
                if text[k] != ">":
                    raise ExtractionError("decay_t<decltype()> not closed")
                end = k + 1
            text = text[:m.start()] + "__typeof__(" + inner + ")" + text[end:]
            count += 1
    return text, count


def r_byref_return(text):
    """R20: `return E;` in a function whose C++ return type is a reference -> `return &(E);`"""
    count = 0
    rx = re.compile(r"\breturn\b")
    pos = 0
    while True:
        m = rx.search(text, pos)
        if not m:
            break
        k = m.end()
        while k < len(text):
            if text[k] in "([{":
                k = match_close(text, k)
            elif text[k] == ";":
                break
            k += 1
        expr = text[m.end():k].strip()
        text = text[:m.start()] + "return &(" + expr + ")" + text[k:]
        pos = m.start() + len("return &(") + len(expr)
        count += 1
    return text, count


def ctor_init_statements(header):
    """R21: constructor mem-initialiser list `: a(e1), b(e2)` -> statements `a = e1; b = e2;` (in the written
    order, which in the extracted constructors equals the declaration order of the members)."""
    blank = blank_comments_and_strings(header)
    # find the ')' that closes the parameter list, then ':'
    op = blank.index("(")
    cp = match_close(blank, op)
    k = cp + 1
    while k < len(blank) and blank[k] != ":":
        k += 1
    if k >= len(blank):
        return "", 0
    rest = header[k + 1:]
    rb = blank[k + 1:]
    stmts = []
    i = 0
    n = len(rest)
    while i < n:
        m = re.compile(r"\s*,?\s*([A-Za-z_]\w*)\s*([({])").match(rb, i)
        if not m:
            break
        ob = m.end() - 1
        cb = match_close(rb, ob)
        name = m.group(1)
        expr = rest[ob + 1:cb].strip()
        if expr == "" or expr == "{}":
            expr = "{0}" if False else "0"
        stmts.append("%s = %s;" % (name, expr))
        i = cb + 1
    return "\n".join(stmts) + "\n", len(stmts)


LOOP_RX = re.compile(r"(?<![A-Za-z_0-9])(for|while)\s*\(")


def r_range_for(text):
    """R27: 'for (DECL : X) BODY' over a covfie::array object X (nd_size, vector) ->
    'for (size_t verif_rk<n> = 0; verif_rk<n> < VERIF_ARRAY_LEN(X); ++verif_rk<n>) { DECL = (X).m_data[verif_rk<n>]; BODY }'.
    DECL must declare a by-value or const-reference element (a mutable reference would alias the element)."""
    count = 0
    pos = 0
    while True:
        m = re.compile(r"(?<![A-Za-z_0-9])for\s*\(").search(text, pos)
        if not m:
            break
        op = m.end() - 1
        cp = match_close(text, op)
        hdr = text[op + 1:cp]
        if hdr.count(";") != 0 or ":" not in hdr.replace("::", "  "):
            pos = cp + 1
            continue
        i = hdr.replace("::", "  ").index(":")
        decl, rng = hdr[:i].strip(), hdr[i + 1:].strip()
        if not re.match(r"^[A-Za-z_][\w.>()*-]*$", rng):
            raise ExtractionError("range-for over an expression that is not an object name: %r" % rng)
        if "&" in decl:
            if not re.search(r"\bconst\b", decl):
                raise ExtractionError("range-for with a mutable reference element: unsupported (%r)" % decl)
            decl = re.sub(r"\s*&\s*", " ", decl)
        # body: a block or a single statement
        j = cp + 1
        while text[j].isspace():
            j += 1
        if text[j] == "{":
            cb = match_close(text, j)
            inner = text[j + 1:cb]
            end = cb + 1
        else:
            end = text.index(";", j) + 1
            inner = text[j:end]
        k = "verif_rk%d" % count
        rep = ("for (size_t %s = 0; %s < VERIF_ARRAY_LEN(%s); ++%s) { %s = (%s).m_data[%s]; %s }"
               % (k, k, rng, k, decl, rng, k, inner))
        text = text[:m.start()] + rep + text[end:]
        pos = m.start() + 4
        count += 1
    return text, count


def weave_loops(text, fname):
    """Insert LOOP_<fname>_<k> after each loop header (k = textual ordinal).
    Range-for / do-while are unknown constructs."""
    if re.search(r"(?<![A-Za-z_0-9])do\s*\{", text):
        raise ExtractionError("do-while loop: unknown construct")
    k = 0
    pos = 0
    out = []
    while True:
        m = LOOP_RX.search(text, pos)
        if not m:
            break
        op = m.end() - 1
        cp = match_close(text, op)
        hdr = text[op + 1:cp]
        if m.group(1) == "for" and hdr.count(";") != 2:
            raise ExtractionError("range-for loop: unknown construct (%r)" % hdr.strip())
        out.append(text[pos:cp + 1])
        out.append(" LOOP_%s_%d " % (fname, k))
        k += 1
        pos = cp + 1
    out.append(text[pos:])
    return "".join(out), k


FORBIDDEN = [
    (r"\bauto\b", "auto"),
    (r"\btemplate\b", "template"),
    (r"\btypename\b", "typename (unsubstituted dependent type)"),
    (r"\bstd::", "std:: (unsubstituted library name)"),
    (r"\bdecltype\b", "decltype"),
    (r"\[\s*[&=]?\s*\]\s*\(", "lambda"),
    (r"\bnew\b|\bdelete\b", "new/delete"),
    (r"\btry\b|\bcatch\b", "try/catch"),
    (r"\bconstexpr\b", "constexpr"),
    (r"::", "scope resolution"),
    (r"\bmutable\b", "mutable"),
]


def check_residue(text, fname):
    blank = blank_comments_and_strings(text)
    for rx, what in FORBIDDEN:
        m = re.search(rx, blank)
        if m:
            line = blank.count("\n", 0, m.start()) + 1
            raise ExtractionError(
                "%s: C++ construct left after rewriting: %s (body line %d: %r)"
                % (fname, what, line, text.split("\n")[line - 1].strip()))


def param_names(params_text):
    """Names of the parameters of a C++ parameter list (last identifier of each
    top-level comma-separated declarator)."""
    names = []
    depth = 0
    cur = ""
    parts = []
    for ch in params_text:
        if ch in "(<[{":
            depth += 1
        elif ch in ")>]}":
            depth -= 1
        if ch == "," and depth == 0:
            parts.append(cur)
            cur = ""
        else:
            cur += ch
    if cur.strip():
        parts.append(cur)
    for p in parts:
        p = p.split("=")[0].strip()
        if p == "void" or not p:
            continue
        m = re.search(r"([A-Za-z_]\w*)\s*(\[[^\]]*\])?$", p)
        names.append(m.group(1) if m else None)
    return names
