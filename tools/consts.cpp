// Constants that are template metaprograms / static constexpr members in covfie,
// evaluated by the real compiler from the real headers on every run.
#include <cstdio>
#include <cinttypes>
#include <covfie/core/backend/primitive/array.hpp>
#include <covfie/core/backend/primitive/constant.hpp>
#include <covfie/core/backend/primitive/identity.hpp>
#include <covfie/core/backend/transformer/affine.hpp>
#include <covfie/core/backend/transformer/backup.hpp>
#include <covfie/core/backend/transformer/clamp.hpp>
#include <covfie/core/backend/transformer/hilbert.hpp>
#include <covfie/core/backend/transformer/linear.hpp>
#include <covfie/core/backend/transformer/morton.hpp>
#include <covfie/core/backend/transformer/nearest_neighbour.hpp>
#include <covfie/core/backend/transformer/strided.hpp>
#include <covfie/core/field.hpp>
#include <covfie/core/utility/binary_io.hpp>

using namespace covfie;
using arr_t = backend::array<vector::float3>;
using str_t = backend::strided<vector::size3, arr_t>;

template <typename Ix, std::size_t N, std::size_t I>
void mask1(const char * ixname)
{
#ifdef HAVE_BMI2
    // the mask the pdep path uses for coordinate scalar type Ix (first template argument of morton_pdep_mask)
    std::printf(
        "VERIF_MORTON_MASK_N%zu_I%zu_%s=0x%016" PRIx64 "ULL\n",
        N,
        I,
        ixname,
        (uint64_t)backend::morton_pdep_mask<Ix, std::size_t, N>::template get_mask<I>::value
    );
#endif
}
template <std::size_t N, std::size_t I>
void mask()
{
    mask1<std::size_t, N, I>("size_t");
    mask1<unsigned, N, I>("unsigned");
    mask1<int, N, I>("int");
}

int main()
{
    std::printf("VERIF_MAGIC_HEADER=0x%08" PRIX32 "u\n", utility::MAGIC_HEADER);
    std::printf("VERIF_MAGIC_FOOTER=0x%08" PRIX32 "u\n", utility::MAGIC_FOOTER);
    std::printf("VERIF_TAG_FIELD=0x%08" PRIX32 "u\n", field<arr_t>::IO_MAGIC_HEADER);
    std::printf("VERIF_TAG_ARRAY=0x%08" PRIX32 "u\n", arr_t::IO_MAGIC_HEADER);
    std::printf("VERIF_TAG_CONSTANT=0x%08" PRIX32 "u\n", backend::constant<vector::float1, vector::float1>::IO_MAGIC_HEADER);
    std::printf("VERIF_TAG_IDENTITY=0x%08" PRIX32 "u\n", backend::identity<vector::float1>::IO_MAGIC_HEADER);
    std::printf("VERIF_TAG_AFFINE=0x%08" PRIX32 "u\n", backend::affine<backend::identity<vector::float1>>::IO_MAGIC_HEADER);
    std::printf("VERIF_TAG_BACKUP=0x%08" PRIX32 "u\n", backend::backup<str_t>::IO_MAGIC_HEADER);
    std::printf("VERIF_TAG_CLAMP=0x%08" PRIX32 "u\n", backend::clamp<str_t>::IO_MAGIC_HEADER);
    std::printf("VERIF_TAG_HILBERT=0x%08" PRIX32 "u\n", backend::hilbert<vector::size2, arr_t>::IO_MAGIC_HEADER);
    std::printf("VERIF_TAG_MORTON=0x%08" PRIX32 "u\n", backend::morton<vector::size3, arr_t>::IO_MAGIC_HEADER);
    std::printf("VERIF_TAG_STRIDED=0x%08" PRIX32 "u\n", str_t::IO_MAGIC_HEADER);
    std::printf("VERIF_TAG_LINEAR=0x%08" PRIX32 "u\n", backend::linear<str_t>::IO_MAGIC_HEADER);
    std::printf("VERIF_TAG_NN=0x%08" PRIX32 "u\n", backend::nearest_neighbour<str_t>::IO_MAGIC_HEADER);
    mask<1, 0>();
    mask<2, 0>(); mask<2, 1>();
    mask<3, 0>(); mask<3, 1>(); mask<3, 2>();
    mask<4, 0>(); mask<4, 1>(); mask<4, 2>(); mask<4, 3>();
#ifdef HAVE_BMI2
    std::printf("VERIF_HAVE_BMI2_AVAILABLE=1\n");
#else
    std::printf("VERIF_HAVE_BMI2_AVAILABLE=0\n");
#endif
    return 0;
}
