IN_SCALAR_T nondet_IN_SCALAR_T(void);
OUT_SCALAR_T nondet_OUT_SCALAR_T(void);
static IN_VEC_T nondet_in_vec(void) { IN_VEC_T v; for (unsigned k = 0; k < DIMS_IN; k++) v.m_data[k] = nondet_IN_SCALAR_T(); return v; }
static OUT_VEC_T nondet_out_vec(void) { OUT_VEC_T v; for (unsigned k = 0; k < DIMS_OUT; k++) v.m_data[k] = nondet_OUT_SCALAR_T(); return v; }
void h_nn_at(void)
{
  NN_SELF_T in_self;
  IN_VEC_T in_c = nondet_in_vec();
  verif_b_result = nondet_out_vec();
  verif_b_calls = 0;
  OUT_VEC_T r = nn_at(&in_self, in_c);
  (void)r;
  VERIF_REACH();
}
