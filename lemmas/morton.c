/* Proof harnesses for the Morton unit. */
IN_SCALAR_T nondet_IN_SCALAR_T(void);

static IN_VEC_T nondet_in_vec(void)
{
  IN_VEC_T v;
  for (unsigned k = 0; k < DIMS_IN; k++) v.m_data[k] = nondet_IN_SCALAR_T();
  return v;
}
static ND_SIZE_T nondet_nd_size(void)
{
  ND_SIZE_T v;
  for (unsigned k = 0; k < DIMS_IN; k++) v.m_data[k] = nondet_size_t();
  return v;
}

/* calculate_index against the interleave contract (dfcc --enforce-contract morton_calculate_index) */
void h_morton_index(void)
{
  IN_VEC_T in_c = nondet_in_vec();
  size_t r = morton_calculate_index(in_c);
  (void)r;
  VERIF_REACH();
}

/* pdep fold against the same contract */
void h_morton_pdep(void)
{
  IN_VEC_T in_c = nondet_in_vec();
  size_t r = morton_pdep_compute(in_c);
  (void)r;
  VERIF_REACH();
}

/* layer lookup against CONTRACT_morton_at; calculate_index replaced by its contract */
void h_morton_at(void)
{
  MORTON_SELF_T in_self;
  in_self.m_sizes = nondet_nd_size();
  IN_VEC_T in_c = nondet_in_vec();
  verif_ghost_m = nondet_size_t();
  verif_b_size = nondet_size_t();
  verif_b_result = (OUT_VEC_PTR_T)nondet_size_t();
  verif_b_calls = 0;
  OUT_VEC_PTR_T r = morton_at(&in_self, in_c);
  (void)r;
  VERIF_REACH();
}

/* allocation-size expressions (round_pow2, ipow replaced by their contracts) */
void h_morton_alloc_copy(void)
{
  ND_SIZE_T in_sizes = nondet_nd_size();
  verif_ghost_k = nondet_unsigned();
  verif_ghost_m = nondet_size_t();
  size_t r = morton_alloc_size_copy(in_sizes);
  (void)r;
  VERIF_REACH();
}
void h_morton_alloc_ctor(void)
{
  ND_SIZE_T in_sizes = nondet_nd_size();
  verif_ghost_k = nondet_unsigned();
  verif_ghost_m = nondet_size_t();
  size_t r = morton_alloc_size_ctor(in_sizes);
  (void)r;
  VERIF_REACH();
}

/* C18 "consequently": storage allocated has more cells than the largest curve position of any
 * in-range coordinate.  calculate_index and the allocation expression are replaced by contracts. */
void h_morton_sizing(void)
{
  ND_SIZE_T in_sizes = nondet_nd_size();
  IN_VEC_T in_c = nondet_in_vec();
  verif_ghost_k = nondet_unsigned();
  verif_ghost_m = nondet_size_t();
  __CPROVER_assume(MORTON_SIZES_OK(in_sizes) && MORTON_FAR_IS(verif_ghost_m, in_sizes, vqs));
  for (unsigned j = 0; j < DIMS_IN; j++)
    __CPROVER_assume(in_c.m_data[j] >= 0 && (uint64_t)in_c.m_data[j] < in_sizes.m_data[j]);
  size_t alloc = morton_alloc_size_ctor(in_sizes);
  size_t idx = morton_calculate_index(in_c);
  __CPROVER_assert(idx < alloc, "Morton position of an in-range coordinate < allocated cells");
  VERIF_REACH();
}

/* C01: the index map is injective on the domain (over the contract) */
void h_morton_injective(void)
{
  IN_VEC_T in_c1 = nondet_in_vec();
  IN_VEC_T in_c2 = nondet_in_vec();
  __CPROVER_assume(MORTON_DOMAIN(in_c1) && MORTON_DOMAIN(in_c2));
  size_t i1 = morton_calculate_index(in_c1);
  size_t i2 = morton_calculate_index(in_c2);
  if (i1 == i2)
    for (unsigned j = 0; j < DIMS_IN; j++)
      __CPROVER_assert(in_c1.m_data[j] == in_c2.m_data[j], "equal Morton positions imply equal coordinates");
  VERIF_REACH();
}

/* interleaving is monotone for the componentwise order (over the contract): c_j <= m_j for all j  ==>  Z(c) <= Z(m).
 * With it, "storage has more cells than the position of the far corner (sizes - 1)" suffices for every in-range c. */
void h_morton_monotone(void)
{
  IN_VEC_T in_c = nondet_in_vec();
  IN_VEC_T in_m = nondet_in_vec();
  __CPROVER_assume(MORTON_DOMAIN(in_c) && MORTON_DOMAIN(in_m));
  for (unsigned j = 0; j < DIMS_IN; j++) __CPROVER_assume(in_c.m_data[j] <= in_m.m_data[j]);
  size_t zc = morton_calculate_index(in_c);
  size_t zm = morton_calculate_index(in_m);
  __CPROVER_assert(zc <= zm, "Morton position is monotone in every coordinate");
  VERIF_REACH();
}
