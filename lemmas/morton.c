/* Proof harnesses for the Morton unit. */
IN_SCALAR_T nondet_IN_SCALAR_T(void);

static IN_VEC_T nondet_in_vec(void)
{
  IN_VEC_T v;
  for (unsigned k = 0; k < DIMS_IN; k++) v.m_data[k] = nondet_IN_SCALAR_T();
  return v;
}
static ND_SIZE_T nondet_nd_size(void)
{
  ND_SIZE_T v;
  for (unsigned k = 0; k < DIMS_IN; k++) v.m_data[k] = nondet_size_t();
  return v;
}

/* calculate_index against the interleave contract (dfcc --enforce-contract morton_calculate_index) */
void h_morton_index(void)
{
  IN_VEC_T in_c = nondet_in_vec();
  size_t r = morton_calculate_index(in_c);
  (void)r;
  VERIF_REACH();
}

/* pdep fold against the same contract */
void h_morton_pdep(void)
{
  IN_VEC_T in_c = nondet_in_vec();
  size_t r = morton_pdep_compute(in_c);
  (void)r;
  VERIF_REACH();
}

/* layer lookup against CONTRACT_morton_at; calculate_index replaced by its contract */
void h_morton_at(void)
{
  MORTON_SELF_T in_self;
  in_self.m_sizes = nondet_nd_size();
  IN_VEC_T in_c = nondet_in_vec();
  verif_ghost_m = nondet_size_t();
  verif_b_size = nondet_size_t();
  verif_b_result = (OUT_VEC_PTR_T)nondet_size_t();
  verif_b_calls = 0;
  OUT_VEC_PTR_T r = morton_at(&in_self, in_c);
  (void)r;
  VERIF_REACH();
}

/* allocation-size expressions (round_pow2, ipow replaced by their contracts) */
void h_morton_alloc_copy(void)
{
  ND_SIZE_T in_sizes = nondet_nd_size();
  verif_ghost_k = nondet_unsigned();
  verif_ghost_m = nondet_size_t();
  size_t r = morton_alloc_size_copy(in_sizes);
  (void)r;
  VERIF_REACH();
}
void h_morton_alloc_ctor(void)
{
  ND_SIZE_T in_sizes = nondet_nd_size();
  verif_ghost_k = nondet_unsigned();
  verif_ghost_m = nondet_size_t();
  size_t r = morton_alloc_size_ctor(in_sizes);
  (void)r;
  VERIF_REACH();
}

/* C18 "consequently": storage allocated has more cells than the largest curve position of any
 * in-range coordinate.  calculate_index and the allocation expression are replaced by contracts. */
void h_morton_sizing(void)
{
  ND_SIZE_T in_sizes = nondet_nd_size();
  IN_VEC_T in_c = nondet_in_vec();
  verif_ghost_k = nondet_unsigned();
  verif_ghost_m = nondet_size_t();
  __CPROVER_assume(MORTON_SIZES_OK(in_sizes) && MORTON_FAR_IS(verif_ghost_m, in_sizes, vqs));
  for (unsigned j = 0; j < DIMS_IN; j++)
    __CPROVER_assume(in_c.m_data[j] >= 0 && (uint64_t)in_c.m_data[j] < in_sizes.m_data[j]);
  size_t alloc = morton_alloc_size_ctor(in_sizes);
  size_t idx = morton_calculate_index(in_c);
  __CPROVER_assert(idx < alloc, "Morton position of an in-range coordinate < allocated cells");
  VERIF_REACH();
}

/* C01: the index map is injective on the domain (over the contract) */
void h_morton_injective(void)
{
  IN_VEC_T in_c1 = nondet_in_vec();
  IN_VEC_T in_c2 = nondet_in_vec();
  __CPROVER_assume(MORTON_DOMAIN(in_c1) && MORTON_DOMAIN(in_c2));
  size_t i1 = morton_calculate_index(in_c1);
  size_t i2 = morton_calculate_index(in_c2);
  if (i1 == i2)
    for (unsigned j = 0; j < DIMS_IN; j++)
      __CPROVER_assert(in_c1.m_data[j] == in_c2.m_data[j], "equal Morton positions imply equal coordinates");
  VERIF_REACH();
}

/* interleaving is monotone for the componentwise order (over the contract): c_j <= m_j for all j  ==>  Z(c) <= Z(m).
 * With it, "storage has more cells than the position of the far corner (sizes - 1)" suffices for every in-range c. */
void h_morton_monotone(void)
{
  IN_VEC_T in_c = nondet_in_vec();
  IN_VEC_T in_m = nondet_in_vec();
  __CPROVER_assume(MORTON_DOMAIN(in_c) && MORTON_DOMAIN(in_m));
  for (unsigned j = 0; j < DIMS_IN; j++) __CPROVER_assume(in_c.m_data[j] <= in_m.m_data[j]);
  size_t zc = morton_calculate_index(in_c);
  size_t zm = morton_calculate_index(in_m);
  __CPROVER_assert(zc <= zm, "Morton position is monotone in every coordinate");
  VERIF_REACH();
}

/* C01, composed: Morton layer over the array backend.  The layer hands the array the interleaved position
 * (contract of calculate_index), the array returns element [position] of its own buffer (contract of array::at):
 * two in-range coordinates designate the same element iff they are equal, distinct coordinates designate disjoint
 * bytes, and every element lies inside the field's own storage -- so a value written at c1 is read back at c1 and a
 * write at c1 never changes what is read at c2 != c1. */
void h_morton_array_compose(void)
{
  MORTON_SELF_T in_self;
  in_self.m_sizes = nondet_nd_size();
  IN_VEC_T in_c1 = nondet_in_vec(), in_c2 = nondet_in_vec();
  verif_ghost_m = nondet_size_t();
  ARRAY_NO_T arr;
  arr.m_size = nondet_u64();
  verif_b_size = arr.m_size;
  __CPROVER_assume(arr.m_size <= ARRAY_MAX_ELEMS && MORTON_INV(in_self.m_sizes));
  __CPROVER_assume(VERIF_ALL(DIMS_IN, MORTON_C_IN_RANGE_K, &in_self, in_c1) && VERIF_ALL(DIMS_IN, MORTON_C_IN_RANGE_K, &in_self, in_c2));
  arr.m_ptr = malloc(arr.m_size * sizeof(OUT_VEC_T));
  size_t i1 = morton_calculate_index(in_c1);
  size_t i2 = morton_calculate_index(in_c2);
  OUT_VEC_T *p1 = array_at(&arr, i1);     /* precondition i1 < m_size is an obligation here */
  OUT_VEC_T *p2 = array_at(&arr, i2);
  __CPROVER_assert(__CPROVER_same_object(p1, arr.m_ptr) && __CPROVER_POINTER_OFFSET(p1) + sizeof(OUT_VEC_T) <= __CPROVER_OBJECT_SIZE(arr.m_ptr), "the element of c1 lies inside the field's own storage");
  _Bool same = 1;
  for (unsigned j = 0; j < DIMS_IN; j++) same = same && in_c1.m_data[j] == in_c2.m_data[j];
  if (same)
    __CPROVER_assert(p1 == p2, "same coordinate, same element");
  else
    __CPROVER_assert((char *)p1 + sizeof(OUT_VEC_T) <= (char *)p2 || (char *)p2 + sizeof(OUT_VEC_T) <= (char *)p1, "different coordinates, disjoint elements");
  VERIF_REACH();
}
