/* Proof harnesses for the affine algebra and the affine layer (C09). */
AT nondet_AT(void);
OUT_SCALAR_T nondet_OUT_SCALAR_T(void);
static void ghosts(void) { verif_ghost_i = nondet_unsigned(); verif_ghost_j = nondet_unsigned(); }
static MAT_N_N1 nondet_aff(void) { MAT_N_N1 m; for (unsigned i = 0; i < DIMS_IN; i++) for (unsigned j = 0; j < N1; j++) m.m_elems[i][j] = nondet_AT(); return m; }
static MAT_N1_N1 nondet_sq(void) { MAT_N1_N1 m; for (unsigned i = 0; i < N1; i++) for (unsigned j = 0; j < N1; j++) m.m_elems[i][j] = nondet_AT(); return m; }
static VEC_N nondet_vec(void) { VEC_N v; for (unsigned i = 0; i < DIMS_IN; i++) v.m_elems[i][0] = nondet_AT(); return v; }
static VEC_N1 nondet_vec1(void) { VEC_N1 v; for (unsigned i = 0; i < N1; i++) v.m_elems[i][0] = nondet_AT(); return v; }

void h_mat_mul_a(void) { MAT_N_N1 in_a = nondet_aff(); VEC_N1 in_r = nondet_vec1(); ghosts(); VEC_N r = mat_mul_a(&in_a, &in_r); (void)r; VERIF_REACH(); }
void h_mat_mul_b(void) { MAT_N1_N1 in_a = nondet_sq(), in_b = nondet_sq(); ghosts(); MAT_N1_N1 r = mat_mul_b(&in_a, &in_b); (void)r; VERIF_REACH(); }
void h_mat_identity(void) { ghosts(); MAT_N_N1 r = mat_identity(); (void)r; VERIF_REACH(); }
void h_affine_apply(void) { MAT_N_N1 in_a = nondet_aff(); VEC_N in_v = nondet_vec(); ghosts(); VEC_N r = affine_apply(&in_a, &in_v); (void)r; VERIF_REACH(); }
void h_affine_mul(void) { MAT_N_N1 in_a = nondet_aff(), in_b = nondet_aff(); ghosts(); MAT_N_N1 r = affine_mul(&in_a, &in_b); (void)r; VERIF_REACH(); }
void h_affine_translation(void) { ARGS_T in_t; for (unsigned i = 0; i < DIMS_IN; i++) in_t.m_data[i] = nondet_AT(); ghosts(); MAT_N_N1 r = affine_translation(in_t); (void)r; VERIF_REACH(); }
void h_affine_scaling(void) { ARGS_T in_t; for (unsigned i = 0; i < DIMS_IN; i++) in_t.m_data[i] = nondet_AT(); ghosts(); MAT_N_N1 r = affine_scaling(in_t); (void)r; VERIF_REACH(); }
void h_affine_at(void)
{
  AFFINE_SELF_T in_self; in_self.m_transform = nondet_aff();
  IN_VEC_T in_c; for (unsigned i = 0; i < DIMS_IN; i++) in_c.m_data[i] = nondet_AT();
  for (unsigned q = 0; q < DIMS_OUT; q++) verif_b_result.m_data[q] = nondet_OUT_SCALAR_T();
  ghosts(); verif_b_calls = 0;
  OUT_VEC_T r = affine_at(&in_self, in_c); (void)r; VERIF_REACH();
}

/* lemmas over the contracts (calls replaced): (A*B)*v == A*(B*v); translation(t)*v == v+t; scaling(s)*v == s.v;
 * identity*v == v -- for one ghost component, in exact integer arithmetic */
void h_lemma_compose(void)
{
  MAT_N_N1 in_a = nondet_aff(), in_b = nondet_aff(); VEC_N in_v = nondet_vec();
  __CPROVER_assume(SMALL_MAT_N_N1(&in_a, 4) && SMALL_MAT_N_N1(&in_b, 4) && SMALL_VEC_N(&in_v, 4));
  unsigned gi = nondet_unsigned(); __CPROVER_assume(gi < DIMS_IN);
  /* (A*B)*v, component gi: needs row gi of A*B, i.e. all columns -> one replaced call per column with ghost_j = column */
  long lhs = 0;
  MAT_N_N1 ab;
  for (unsigned j = 0; j < N1; j++) {
    verif_ghost_i = gi; verif_ghost_j = j;
    MAT_N_N1 t = affine_mul(&in_a, &in_b);
    ab.m_elems[gi][j] = t.m_elems[gi][j];
    lhs += L(t.m_elems[gi][j]) * (j < DIMS_IN ? L(in_v.m_elems[j][0]) : 1);
  }
  /* A*(B*v): B*v needs every component -> one replaced call per component */
  VEC_N bv;
  for (unsigned k = 0; k < DIMS_IN; k++) { verif_ghost_i = k; VEC_N t = affine_apply(&in_b, &in_v); bv.m_elems[k][0] = t.m_elems[k][0]; }
  verif_ghost_i = gi;
  VEC_N r = affine_apply(&in_a, &bv);
  __CPROVER_assert(L(r.m_elems[gi][0]) == lhs, "(A*B)*v == A*(B*v): the product applies the right factor first");
  VERIF_REACH();
}
void h_lemma_factories(void)
{
  ARGS_T in_t; VEC_N in_v = nondet_vec();
  for (unsigned i = 0; i < DIMS_IN; i++) { in_t.m_data[i] = nondet_AT(); __CPROVER_assume(IS_INT_UPTO(in_t.m_data[i], AFF_MAX)); }
  __CPROVER_assume(SMALL_VEC_N(&in_v, AFF_MAX));
  unsigned gi = nondet_unsigned(); __CPROVER_assume(gi < DIMS_IN);
  MAT_N_N1 tr, sc, id;
  for (unsigned j = 0; j < N1; j++) {
    verif_ghost_i = gi; verif_ghost_j = j;
    MAT_N_N1 a = affine_translation(in_t); tr.m_elems[gi][j] = a.m_elems[gi][j];
    MAT_N_N1 b = affine_scaling(in_t); sc.m_elems[gi][j] = b.m_elems[gi][j];
    MAT_N_N1 c = mat_identity(); id.m_elems[gi][j] = c.m_elems[gi][j];
  }
  /* rows other than gi are irrelevant for component gi but must satisfy the callee's precondition */
  for (unsigned i = 0; i < DIMS_IN; i++) if (i != gi) for (unsigned j = 0; j < N1; j++) { tr.m_elems[i][j] = 0; sc.m_elems[i][j] = 0; id.m_elems[i][j] = 0; }
  verif_ghost_i = gi;
  VEC_N r1 = affine_apply(&tr, &in_v);
  __CPROVER_assert(L(r1.m_elems[gi][0]) == L(in_v.m_elems[gi][0]) + L(in_t.m_data[gi]), "translation(t)*v == v + t");
  VEC_N r2 = affine_apply(&sc, &in_v);
  __CPROVER_assert(L(r2.m_elems[gi][0]) == L(in_v.m_elems[gi][0]) * L(in_t.m_data[gi]), "scaling(s)*v == s.v");
  VEC_N r3 = affine_apply(&id, &in_v);
  __CPROVER_assert(L(r3.m_elems[gi][0]) == L(in_v.m_elems[gi][0]), "identity*v == v");
  VERIF_REACH();
}
