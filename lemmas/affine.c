/* Proof harnesses for the affine algebra and the affine layer (C09). */
AT nondet_AT(void);
OUT_SCALAR_T nondet_OUT_SCALAR_T(void);
static void ghosts(void) { verif_ghost_i = nondet_unsigned(); verif_ghost_j = nondet_unsigned(); }
static MAT_N_N1 nondet_aff(void) { MAT_N_N1 m; for (unsigned i = 0; i < DIMS_IN; i++) for (unsigned j = 0; j < N1; j++) m.m_elems[i][j] = nondet_AT(); return m; }
static MAT_N1_N1 nondet_sq(void) { MAT_N1_N1 m; for (unsigned i = 0; i < N1; i++) for (unsigned j = 0; j < N1; j++) m.m_elems[i][j] = nondet_AT(); return m; }
static VEC_N nondet_vec(void) { VEC_N v; for (unsigned i = 0; i < DIMS_IN; i++) v.m_elems[i][0] = nondet_AT(); return v; }
static VEC_N1 nondet_vec1(void) { VEC_N1 v; for (unsigned i = 0; i < N1; i++) v.m_elems[i][0] = nondet_AT(); return v; }

void h_mat_mul_a(void) { MAT_N_N1 in_a = nondet_aff(); VEC_N1 in_r = nondet_vec1(); ghosts(); VEC_N r = mat_mul_a(&in_a, &in_r); (void)r; VERIF_REACH(); }
void h_mat_mul_b(void) { MAT_N1_N1 in_a = nondet_sq(), in_b = nondet_sq(); ghosts(); MAT_N1_N1 r = mat_mul_b(&in_a, &in_b); (void)r; VERIF_REACH(); }
void h_mat_identity(void) { ghosts(); MAT_N_N1 r = mat_identity(); (void)r; VERIF_REACH(); }
void h_affine_apply(void) { MAT_N_N1 in_a = nondet_aff(); VEC_N in_v = nondet_vec(); ghosts(); VEC_N r = affine_apply(&in_a, &in_v); (void)r; VERIF_REACH(); }
void h_affine_mul(void) { MAT_N_N1 in_a = nondet_aff(), in_b = nondet_aff(); ghosts(); MAT_N_N1 r = affine_mul(&in_a, &in_b); (void)r; VERIF_REACH(); }
void h_affine_translation(void) { ARGS_T in_t; for (unsigned i = 0; i < DIMS_IN; i++) in_t.m_data[i] = nondet_AT(); ghosts(); MAT_N_N1 r = affine_translation(in_t); (void)r; VERIF_REACH(); }
void h_affine_scaling(void) { ARGS_T in_t; for (unsigned i = 0; i < DIMS_IN; i++) in_t.m_data[i] = nondet_AT(); ghosts(); MAT_N_N1 r = affine_scaling(in_t); (void)r; VERIF_REACH(); }
void h_affine_at(void)
{
  AFFINE_SELF_T in_self; in_self.m_transform = nondet_aff();
  IN_VEC_T in_c; for (unsigned i = 0; i < DIMS_IN; i++) in_c.m_data[i] = nondet_AT();
  for (unsigned q = 0; q < DIMS_OUT; q++) verif_b_result.m_data[q] = nondet_OUT_SCALAR_T();
  ghosts(); verif_b_calls = 0;
  OUT_VEC_T r = affine_at(&in_self, in_c); (void)r; VERIF_REACH();
}

/* lemmas over the contracts (calls replaced), in the ring of T (decided for T = unsigned: arithmetic modulo 2^32 is a
 * commutative ring, so associativity/distributivity across the different summation orders are ring identities):
 * (A*B)*v == A*(B*v); translation(t)*v == v+t; scaling(s)*v == s.v; identity*v == v -- one ghost component */
void h_lemma_compose(void)
{
  MAT_N_N1 in_a = nondet_aff(), in_b = nondet_aff(); VEC_N in_v = nondet_vec();
  MAT_N_N1 ab = affine_mul(&in_a, &in_b);
  VEC_N bv = affine_apply(&in_b, &in_v);
  VEC_N r = affine_apply(&in_a, &bv);
  for (unsigned gi = 0; gi < DIMS_IN; gi++) {     /* every component, with concrete indices */
    AT lhs = 0;
    for (unsigned j = 0; j < N1; j++) lhs += ab.m_elems[gi][j] * (j < DIMS_IN ? in_v.m_elems[j][0] : (AT)1);
    __CPROVER_assert(r.m_elems[gi][0] == lhs, "(A*B)*v == A*(B*v): the product applies the right factor first");
  }
  VERIF_REACH();
}
void h_lemma_factories(void)
{
  ARGS_T in_t; VEC_N in_v = nondet_vec();
  for (unsigned i = 0; i < DIMS_IN; i++) in_t.m_data[i] = nondet_AT();
  MAT_N_N1 tr, sc, id;
  for (unsigned i = 0; i < DIMS_IN; i++) for (unsigned j = 0; j < N1; j++) { tr.m_elems[i][j] = 0; sc.m_elems[i][j] = 0; id.m_elems[i][j] = 0; }
  for (unsigned i = 0; i < DIMS_IN; i++)
    for (unsigned j = 0; j < N1; j++) {       /* the factory contracts speak about one ghost entry: one replaced call per entry */
      verif_ghost_i = i; verif_ghost_j = j;
      MAT_N_N1 a = affine_translation(in_t); tr.m_elems[i][j] = a.m_elems[i][j];
      MAT_N_N1 b = affine_scaling(in_t); sc.m_elems[i][j] = b.m_elems[i][j];
      MAT_N_N1 c = mat_identity(); id.m_elems[i][j] = c.m_elems[i][j];
    }
  VEC_N r1 = affine_apply(&tr, &in_v);
  VEC_N r2 = affine_apply(&sc, &in_v);
  VEC_N r3 = affine_apply(&id, &in_v);
  for (unsigned gi = 0; gi < DIMS_IN; gi++) {
    __CPROVER_assert(r1.m_elems[gi][0] == (AT)(in_v.m_elems[gi][0] + in_t.m_data[gi]), "translation(t)*v == v + t");
    __CPROVER_assert(r2.m_elems[gi][0] == (AT)(in_v.m_elems[gi][0] * in_t.m_data[gi]), "scaling(s)*v == s.v");
    __CPROVER_assert(r3.m_elems[gi][0] == in_v.m_elems[gi][0], "identity*v == v");
  }
  VERIF_REACH();
}
