/* Proof harnesses for C18 over the extracted round_pow2 / ipow. */
T nondet_T(void);

/* round_pow2 against its contract (enforced by dfcc) */
void h_round_pow2(void)
{
  T in_i = nondet_T();
  T r = round_pow2(in_i);
  (void)r;
  VERIF_REACH();
}

/* ipow against CONTRACT_ipow (exponents 0..4, all b) */
void h_ipow_small_e(void)
{
  T in_b = nondet_T();
#ifdef VERIF_E
  T in_e = (T)VERIF_E;   /* one cell per exponent: the solver sees a constant trip count */
#else
  T in_e = nondet_T();
  __CPROVER_assume(in_e <= 4);
#endif
  verif_ghost_k = nondet_unsigned();
  T r = ipow(in_b, in_e);
  (void)r;
  VERIF_REACH();
}

/* recurrence: ipow(b,0) = 1 and ipow(b,e+1) = b * ipow(b,e)  (mod 2^W).
 * By induction on e this determines ipow(b,e) = b^e mod 2^W for all b, e. */
void h_ipow_recurrence(void)
{
  T in_b = nondet_T();
  T in_e = nondet_T();
  __CPROVER_assert(ipow(in_b, (T)0) == (T)1, "ipow(b,0) == 1");
  if (in_e != (T)-1) {
    T lo = ipow(in_b, in_e);
    T hi = ipow(in_b, (T)(in_e + 1));
    __CPROVER_assert(hi == (T)(in_b * lo), "ipow(b,e+1) == b*ipow(b,e) mod 2^W");
  }
  VERIF_REACH();
}

/* ipow against the repeated-multiplication oracle (ghost loop, <= 2^W - 1 iterations) */
void h_ipow_oracle(void)
{
  T in_b = nondet_T();
  T in_e = nondet_T();
  T spec = 1;
  for (T k = 0; k < in_e; k++)
    spec = (T)(spec * in_b);
  T r = ipow(in_b, in_e);
  __CPROVER_assert(r == spec, "ipow(b,e) == prod_{k<e} b mod 2^W");
  VERIF_REACH();
}

