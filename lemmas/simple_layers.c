IN_SCALAR_T nondet_IN_SCALAR_T(void);
OUT_SCALAR_T nondet_OUT_SCALAR_T(void);
static IN_VEC_T nondet_in_vec(void) { IN_VEC_T v; for (unsigned k = 0; k < DIMS_IN; k++) v.m_data[k] = nondet_IN_SCALAR_T(); return v; }
static OUT_VEC_T nondet_out_vec(void) { OUT_VEC_T v; for (unsigned k = 0; k < DIMS_OUT; k++) v.m_data[k] = nondet_OUT_SCALAR_T(); return v; }
#ifdef UNIT_SHUFFLE
void h_shuffle_shuffle(void) { EMPTY_SELF_T in_self; IN_VEC_T in_c = nondet_in_vec(); IN_VEC_T r = shuffle_shuffle(&in_self, in_c); (void)r; VERIF_REACH(); }
void h_shuffle_at(void) { EMPTY_SELF_T in_self; IN_VEC_T in_c = nondet_in_vec(); verif_b_result = nondet_out_vec(); verif_b_calls = 0; OUT_VEC_T r = shuffle_at(&in_self, in_c); (void)r; VERIF_REACH(); }
#endif
#ifdef UNIT_CAST
void h_cast_at_helper(void) { EMPTY_SELF_T in_self; IN_VEC_T in_c = nondet_in_vec(); verif_b_result = nondet_out_vec(); verif_b_calls = 0; CAST_VEC_T r = cast_at_helper(&in_self, in_c); (void)r; VERIF_REACH(); }
void h_cast_at(void) { EMPTY_SELF_T in_self; IN_VEC_T in_c = nondet_in_vec(); verif_b_result = nondet_out_vec(); verif_b_calls = 0; CAST_VEC_T r = cast_at(&in_self, in_c); (void)r; VERIF_REACH(); }
#endif
#ifdef UNIT_DEREF
void h_deref_at(void) { EMPTY_SELF_T in_self; IN_VEC_T in_c = nondet_in_vec(); verif_b_result = nondet_out_vec(); verif_b_calls = 0; OUT_VEC_T r = deref_at(&in_self, in_c); (void)r; VERIF_REACH(); }
#endif
#ifdef UNIT_CONSTANT
void h_constant_at(void) { CONSTANT_SELF_T in_self; in_self.m_value = nondet_out_vec(); IN_VEC_T in_c = nondet_in_vec(); OUT_VEC_T r = constant_at(&in_self, in_c); (void)r; VERIF_REACH(); }
#endif
#ifdef UNIT_IDENTITY
void h_identity_at(void) { EMPTY_SELF_T in_self; IN_VEC_T in_c = nondet_in_vec(); IDENT_VEC_T r = identity_at(&in_self, in_c); (void)r; VERIF_REACH(); }
#endif
