/* array backend lookup against its contract */
void h_array_at(void)
{
  ARRAY_NO_T in_self_obj; in_self_obj.m_size = nondet_u64(); ARRAY_NO_T *in_self = &in_self_obj;
  size_t in_i = nondet_size_t();
  OUT_VEC_T *r = array_at(in_self, in_i);
  (void)r;
  VERIF_REACH();
}

/* write/read lemma over the contract: store through at(i1), load through at(i2) */
OUT_SCALAR_T nondet_OUT_SCALAR_T(void);
void h_array_rw(void)
{
  ARRAY_NO_T in_self;
  in_self.m_size = nondet_u64();
  __CPROVER_assume(in_self.m_size <= ARRAY_RW_MAX_ELEMS);
  in_self.m_ptr = malloc(in_self.m_size * sizeof(OUT_VEC_T));
  size_t in_i1 = nondet_size_t(), in_i2 = nondet_size_t();
  unsigned in_q = nondet_unsigned();
  __CPROVER_assume(in_i1 < in_self.m_size && in_i2 < in_self.m_size && in_q < DIMS_OUT);
  OUT_SCALAR_T in_v = nondet_OUT_SCALAR_T();
  OUT_VEC_T *p2 = array_at(&in_self, in_i2);
  OUT_SCALAR_T old2 = p2->m_data[in_q];
  OUT_VEC_T *p1 = array_at(&in_self, in_i1);
  p1->m_data[in_q] = in_v;
  OUT_VEC_T *p3 = array_at(&in_self, in_i2);
  if (in_i1 == in_i2)
    __CPROVER_assert(__CPROVER_equal(p3->m_data[in_q], in_v), "value written at i is the value read back at i");
  else
    __CPROVER_assert(__CPROVER_equal(p3->m_data[in_q], old2), "a write at i1 does not change what is read at i2 != i1");
  VERIF_REACH();
}

/* address-level form of the same lemma, unbounded in the element count: the reference returned for i
 * designates bytes [i*sizeof, (i+1)*sizeof) of the view's own buffer, and different indices designate
 * disjoint byte ranges (so a store through one cannot change what is loaded through the other) */
void h_array_addr(void)
{
  ARRAY_NO_T in_self;
  in_self.m_size = nondet_u64();
  __CPROVER_assume(in_self.m_size <= ARRAY_MAX_ELEMS);
  in_self.m_ptr = malloc(in_self.m_size * sizeof(OUT_VEC_T));
  size_t in_i1 = nondet_size_t(), in_i2 = nondet_size_t();
  __CPROVER_assume(in_i1 < in_self.m_size && in_i2 < in_self.m_size);
  OUT_VEC_T *p1 = array_at(&in_self, in_i1);
  OUT_VEC_T *p2 = array_at(&in_self, in_i2);
  __CPROVER_assert(__CPROVER_same_object(p1, in_self.m_ptr) && __CPROVER_same_object(p2, in_self.m_ptr), "references point into the view's own buffer");
  __CPROVER_assert(__CPROVER_POINTER_OFFSET(p1) == (__CPROVER_ssize_t)(in_i1 * sizeof(OUT_VEC_T)), "element i starts at byte i*sizeof(vector)");
  __CPROVER_assert(__CPROVER_POINTER_OFFSET(p1) + sizeof(OUT_VEC_T) <= __CPROVER_OBJECT_SIZE(in_self.m_ptr), "element i lies inside the buffer");
  __CPROVER_assert(__CPROVER_r_ok(p1, sizeof(OUT_VEC_T)) && __CPROVER_w_ok(p1, sizeof(OUT_VEC_T)), "element i is readable and writable");
  if (in_i1 == in_i2)
    __CPROVER_assert(p1 == p2, "same index, same element");
  else
    __CPROVER_assert((char *)p1 + sizeof(OUT_VEC_T) <= (char *)p2 || (char *)p2 + sizeof(OUT_VEC_T) <= (char *)p1, "different indices, disjoint elements");
  VERIF_REACH();
}
