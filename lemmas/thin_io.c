static VERIF_ISTREAM nondet_istream(void)
{
  VERIF_ISTREAM s; s.len = nondet_size_t(); __CPROVER_assume(s.len <= VERIF_STREAM_MAX); s.buf = 0;
  s.pos = nondet_size_t(); __CPROVER_assume(s.pos <= s.len); s.failbit = 0; s.eofbit = 0; return s;
}
static VERIF_OSTREAM nondet_ostream(void)
{
  VERIF_OSTREAM s; s.cap = nondet_size_t(); __CPROVER_assume(s.cap <= VERIF_STREAM_MAX); s.buf = 0;
  s.len = nondet_size_t(); __CPROVER_assume(s.len <= s.cap); return s;
}
static void b_ghosts(void)
{
  verif_b_image_len = nondet_size_t(); verif_b_image_ok = nondet_bool(); verif_b_loaded.token = nondet_unsigned();
  verif_b_read_calls = 0; verif_b_write_calls = 0;
}
#if THIN <= 3 || THIN == 6 || THIN == 7
void h_thin_read_binary(void) { VERIF_ISTREAM in_fs = nondet_istream(); verif_thrown = 0; b_ghosts(); THIN_OWN_T r = thin_read_binary(&in_fs); (void)r; VERIF_REACH(); }
void h_thin_write_binary(void)
{
  VERIF_OSTREAM in_fs = nondet_ostream(); THIN_OWN_T in_o; in_o.m_backend.token = nondet_unsigned(); b_ghosts(); verif_l0 = in_fs.len;
  thin_write_binary(&in_fs, &in_o); VERIF_REACH();
}
#elif THIN == 8
OUT_SCALAR_T nondet_OUT_SCALAR_T(void);
void h_read_binary_outvec(void) { VERIF_ISTREAM in_fs = nondet_istream(); verif_thrown = 0; OUT_VEC_T r = read_binary_outvec(&in_fs); (void)r; VERIF_REACH(); }
void h_const_read_binary(void) { VERIF_ISTREAM in_fs = nondet_istream(); verif_thrown = 0; CONST_OWN_T r = const_read_binary(&in_fs); (void)r; VERIF_REACH(); }
void h_const_write_binary(void)
{
  VERIF_OSTREAM in_fs = nondet_ostream(); CONST_OWN_T in_o;
  for (unsigned k = 0; k < DIMS_OUT; k++) in_o.m_value.m_data[k] = nondet_OUT_SCALAR_T();
  verif_l0 = in_fs.len; const_write_binary(&in_fs, &in_o); VERIF_REACH();
}
#elif THIN == 4
void h_ident_read_binary(void) { VERIF_ISTREAM in_fs = nondet_istream(); verif_thrown = 0; IDENT_OWN_T r = ident_read_binary(&in_fs); (void)r; VERIF_REACH(); }
void h_ident_write_binary(void) { VERIF_OSTREAM in_fs = nondet_ostream(); IDENT_OWN_T in_o; verif_l0 = in_fs.len; ident_write_binary(&in_fs, &in_o); VERIF_REACH(); }
#elif THIN == 5
void h_field_load(void) { VERIF_ISTREAM in_fs = nondet_istream(); verif_thrown = 0; b_ghosts(); THIN_OWN_T in_self; in_self.m_backend.token = 0; field_load(&in_self, &in_fs); VERIF_REACH(); }
void h_field_dump(void)
{
  VERIF_OSTREAM in_fs = nondet_ostream(); THIN_OWN_T in_self; in_self.m_backend.token = nondet_unsigned(); b_ghosts(); verif_l0 = in_fs.len;
  field_dump(&in_self, &in_fs); VERIF_REACH();
}
#endif
