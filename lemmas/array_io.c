/* Proof harnesses for the array backend's serialisation. */
static VERIF_ISTREAM nondet_istream(void)
{
  VERIF_ISTREAM s;
  s.len = nondet_size_t();
  __CPROVER_assume(s.len <= VERIF_STREAM_MAX);
  s.buf = 0;   /* introduced by the contract's is_fresh(fs->buf, fs->len) */
  s.pos = nondet_size_t();
  __CPROVER_assume(s.pos <= s.len);
  s.failbit = 0;
  s.eofbit = 0;
  return s;
}
static VERIF_OSTREAM nondet_ostream(void)
{
  VERIF_OSTREAM s;
  s.cap = nondet_size_t();
  __CPROVER_assume(s.cap <= VERIF_STREAM_MAX);
  s.buf = 0;
  s.len = nondet_size_t();
  __CPROVER_assume(s.len <= s.cap);
  return s;
}

void h_array_read_binary(void)
{
  VERIF_ISTREAM in_fs = nondet_istream();
  verif_thrown = 0;
  verif_ghost_K = nondet_size_t();
  verif_ghost_J = nondet_unsigned();
  verif_p0 = in_fs.pos;
  ARRAY_OWN_T r = array_read_binary(&in_fs);
  (void)r;
  VERIF_REACH();
}

void h_array_write_binary(void)
{
  VERIF_OSTREAM in_fs = nondet_ostream();
  ARRAY_OWN_T in_o;
  in_o.m_size = nondet_u64();
  in_o.m_ptr = 0;
  verif_ghost_K = nondet_size_t();
  verif_ghost_J = nondet_unsigned();
  verif_l0 = in_fs.len;
  array_write_binary(&in_fs, &in_o);
  VERIF_REACH();
}
