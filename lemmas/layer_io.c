/* Proof harnesses for the framing of layers with an nd_size configuration. */
static VERIF_ISTREAM nondet_istream(void)
{
  VERIF_ISTREAM s;
  s.len = nondet_size_t();
  __CPROVER_assume(s.len <= VERIF_STREAM_MAX);
  s.buf = 0;
  s.pos = nondet_size_t();
  __CPROVER_assume(s.pos <= s.len);
  s.failbit = 0; s.eofbit = 0;
  return s;
}
static VERIF_OSTREAM nondet_ostream(void)
{
  VERIF_OSTREAM s;
  s.cap = nondet_size_t();
  __CPROVER_assume(s.cap <= VERIF_STREAM_MAX);
  s.buf = 0;
  s.len = nondet_size_t();
  __CPROVER_assume(s.len <= s.cap);
  return s;
}
static void b_ghosts(void)
{
  verif_b_image_len = nondet_size_t();
  verif_b_image_ok = nondet_bool();
  verif_b_loaded.token = nondet_unsigned();
  verif_b_read_calls = 0; verif_b_write_calls = 0;
}
#if LAYER >= 4
IN_SCALAR_T nondet_IN_SCALAR_T(void);
OUT_SCALAR_T nondet_OUT_SCALAR_T(void);
void h_read_binary_invec(void) { VERIF_ISTREAM in_fs = nondet_istream(); verif_thrown = 0; IN_VEC_T r = read_binary_invec(&in_fs); (void)r; VERIF_REACH(); }
static void nondet_conf(LAYER_OWN_T *o)
{
  for (unsigned k = 0; k < DIMS_IN; k++) { o->m_min.m_data[k] = nondet_IN_SCALAR_T(); o->m_max.m_data[k] = nondet_IN_SCALAR_T(); }
#if LAYER == 5
  for (unsigned k = 0; k < DIMS_OUT; k++) o->m_default.m_data[k] = nondet_OUT_SCALAR_T();
#endif
  o->m_backend.token = nondet_unsigned();
}
#else
static void nondet_conf(LAYER_OWN_T *o)
{
  for (unsigned k = 0; k < DIMS_IN; k++) o->m_sizes.m_data[k] = nondet_size_t();
  o->m_storage.token = nondet_unsigned();
}
#endif
#if LAYER <= 3
void h_read_binary_ndsize(void) { VERIF_ISTREAM in_fs = nondet_istream(); verif_thrown = 0; ND_SIZE_T r = read_binary_ndsize(&in_fs); (void)r; VERIF_REACH(); }
#endif
void h_layer_read_binary(void)
{
  VERIF_ISTREAM in_fs = nondet_istream();
  verif_thrown = 0;
  b_ghosts();
  LAYER_OWN_T r = layer_read_binary(&in_fs);
  (void)r;
  VERIF_REACH();
}
void h_layer_write_binary(void)
{
  VERIF_OSTREAM in_fs = nondet_ostream();
  LAYER_OWN_T in_o;
  nondet_conf(&in_o);
  b_ghosts();
  verif_l0 = in_fs.len;
  layer_write_binary(&in_fs, &in_o);
  VERIF_REACH();
}
/* C06 for one layer, over the two contracts: what write_binary emits, read_binary accepts, consuming exactly
 * the image and returning the same configuration and the inner backend's value; B's own round trip is the
 * induction hypothesis (verif_b_image_ok := 1 for the bytes B wrote, B returns what it was given). */
void h_layer_roundtrip(void)
{
  VERIF_OSTREAM out;
  out.cap = nondet_size_t();
  __CPROVER_assume(out.cap <= VERIF_STREAM_MAX);
  out.buf = malloc(out.cap);
  out.len = nondet_size_t();
  __CPROVER_assume(out.len <= out.cap);
  LAYER_OWN_T in_o;
  nondet_conf(&in_o);
  b_ghosts();
  verif_b_image_ok = 1;
  verif_b_loaded.token = in_o.B_MEMBER.token;
  __CPROVER_assume(verif_b_image_len <= VERIF_STREAM_MAX && out.cap - out.len >= 16 + CONF_BYTES + verif_b_image_len);
  verif_l0 = out.len;
  size_t l0 = out.len;
  layer_write_binary(&out, &in_o);
  VERIF_ISTREAM in;
  in.buf = out.buf; in.len = out.len; in.pos = l0; in.failbit = 0; in.eofbit = 0;
  verif_thrown = 0;
  verif_b_read_calls = 0;   /* the reader's ghost call counter starts at zero (the writer's frame lists all B ghosts, so it is havocked by the replaced call) */
  LAYER_OWN_T r = layer_read_binary(&in);
  __CPROVER_assert(verif_thrown == 0, "a freshly written image loads without exception");
  __CPROVER_assert(in.pos == in.len, "the reader consumes exactly the bytes the writer produced");
#if LAYER <= 3
  for (unsigned k = 0; k < DIMS_IN; k++)
    __CPROVER_assert(r.m_sizes.m_data[k] == in_o.m_sizes.m_data[k], "configuration reproduced exactly");
#else
  for (unsigned k = 0; k < DIMS_IN; k++)
    __CPROVER_assert(__CPROVER_equal(r.m_min.m_data[k], in_o.m_min.m_data[k]) && __CPROVER_equal(r.m_max.m_data[k], in_o.m_max.m_data[k]), "configuration reproduced exactly");
#endif
  __CPROVER_assert(r.B_MEMBER.token == in_o.B_MEMBER.token, "inner backend value is the one B's reader returned for B's image");
  VERIF_REACH();
}
