/* Proof harnesses for the Hilbert unit (one cell per curve order HILBERT_K). */
static IN_VEC_T nondet_in_vec(void)
{
  IN_VEC_T v;
  for (unsigned k = 0; k < DIMS_IN; k++) v.m_data[k] = nondet_size_t();
  return v;
}
static ND_SIZE_T nondet_nd_size(void)
{
  ND_SIZE_T v;
  for (unsigned k = 0; k < DIMS_IN; k++) v.m_data[k] = nondet_size_t();
  return v;
}

void h_hilbert_rot(void)
{
  size_t in_n = nondet_size_t(), in_x = nondet_size_t(), in_y = nondet_size_t();
  size_t in_rx = nondet_size_t(), in_ry = nondet_size_t();
  hilbert_rot(in_n, &in_x, &in_y, in_rx, in_ry);
  VERIF_REACH();
}

/* in range + origin (the function's own contract) */
void h_hilbert_index(void)
{
  IN_VEC_T in_c = nondet_in_vec();
  ND_SIZE_T in_sizes = nondet_nd_size();
  size_t d = hilbert_calculate_index(in_c, in_sizes);
  (void)d;
  VERIF_REACH();
}

/* injective on the box: with "in range" on a finite set this is "every cell exactly once" for the square */
void h_hilbert_injective(void)
{
  ND_SIZE_T in_sizes = nondet_nd_size();
  IN_VEC_T in_c1 = nondet_in_vec(), in_c2 = nondet_in_vec();
  __CPROVER_assume(HILBERT_SIZES_OK(in_sizes) && HILBERT_C_OK(in_c1, in_sizes) && HILBERT_C_OK(in_c2, in_sizes));
  size_t d1 = hilbert_calculate_index(in_c1, in_sizes);
  size_t d2 = hilbert_calculate_index(in_c2, in_sizes);
  if (d1 == d2) {
    __CPROVER_assert(in_c1.m_data[0] == in_c2.m_data[0], "equal Hilbert positions imply equal x");
    __CPROVER_assert(in_c1.m_data[1] == in_c2.m_data[1], "equal Hilbert positions imply equal y");
  }
  VERIF_REACH();
}

/* consecutive positions are in edge-adjacent cells */
void h_hilbert_adjacent(void)
{
  ND_SIZE_T in_sizes = nondet_nd_size();
  IN_VEC_T in_c1 = nondet_in_vec(), in_c2 = nondet_in_vec();
  __CPROVER_assume(HILBERT_SIZES_OK(in_sizes) && HILBERT_C_OK(in_c1, in_sizes) && HILBERT_C_OK(in_c2, in_sizes));
  size_t d1 = hilbert_calculate_index(in_c1, in_sizes);
  size_t d2 = hilbert_calculate_index(in_c2, in_sizes);
  if (d2 == d1 + 1) {
    size_t dx = in_c1.m_data[0] > in_c2.m_data[0] ? in_c1.m_data[0] - in_c2.m_data[0] : in_c2.m_data[0] - in_c1.m_data[0];
    size_t dy = in_c1.m_data[1] > in_c2.m_data[1] ? in_c1.m_data[1] - in_c2.m_data[1] : in_c2.m_data[1] - in_c1.m_data[1];
    __CPROVER_assert(dx + dy == 1, "consecutive Hilbert positions are edge-adjacent cells");
  }
  VERIF_REACH();
}

void h_hilbert_at(void)
{
  HILBERT_SELF_T in_self;
  in_self.m_sizes = nondet_nd_size();
  IN_VEC_T in_c = nondet_in_vec();
  verif_b_size = nondet_size_t();
  verif_b_result = (OUT_VEC_PTR_T)nondet_size_t();
  verif_b_calls = 0;
  __CPROVER_assume(HILBERT_SIZES_OK(in_self.m_sizes) && HILBERT_C_OK(in_c, in_self.m_sizes));
  verif_expected_idx = hilbert_calculate_index(in_c, in_self.m_sizes);
  OUT_VEC_PTR_T r = hilbert_at(&in_self, in_c);
  (void)r;
  VERIF_REACH();
}

void h_hilbert_alloc_copy(void) { ND_SIZE_T in_sizes = nondet_nd_size(); size_t r = hilbert_alloc_size_copy(in_sizes); (void)r; VERIF_REACH(); }
void h_hilbert_alloc_ctor(void) { ND_SIZE_T in_sizes = nondet_nd_size(); size_t r = hilbert_alloc_size_ctor(in_sizes); (void)r; VERIF_REACH(); }
