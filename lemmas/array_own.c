/* Proof harnesses for the array backend's ownership operations (C12). */
OUT_SCALAR_T nondet_OUT_SCALAR_T(void);
static void make_wf(ARRAY_OWN_T *d)
{
  d->m_size = nondet_u64();
  __CPROVER_assume(d->m_size <= ARRAY_OWN_MAX);
  _Bool null_ok = nondet_bool();
  if (d->m_size == 0 && null_ok)
    d->m_ptr = 0;                        /* default-constructed */
  else
    d->m_ptr = (OUT_VEC_T *)malloc(d->m_size * sizeof(OUT_VEC_T));   /* arbitrary contents */
}
/* a possible assignment TARGET: well-formed, or moved-from (the defaulted move leaves m_size as it was and
 * m_ptr null -- a state the real class reaches and copy assignment must cope with) */
static void make_target(ARRAY_OWN_T *d)
{
  make_wf(d);
  if (nondet_bool() && d->m_ptr) { free(d->m_ptr); d->m_ptr = 0; }
}

/* a = b with a and b distinct objects */
void h_array_copy_assign_distinct(void)
{
  ARRAY_OWN_T in_a, in_b;
  make_target(&in_a);
  make_wf(&in_b);
  verif_ghost_K = nondet_size_t();
  verif_ghost_J = nondet_unsigned();
  __CPROVER_assume(verif_ghost_J < DIMS_OUT);
  verif_old_o_size = in_b.m_size;
  verif_old_o_ptr = in_b.m_ptr;
  if (verif_ghost_K < in_b.m_size) verif_ghost_src = in_b.m_ptr[verif_ghost_K].m_data[verif_ghost_J];
  ARRAY_OWN_T *r = array_copy_assign(&in_a, &in_b);
  (void)r;
  /* write independence: a store through a's view leaves view(b) unchanged */
  if (verif_ghost_K < in_a.m_size) {
    in_a.m_ptr[verif_ghost_K].m_data[verif_ghost_J] = nondet_OUT_SCALAR_T();
    __CPROVER_assert(__CPROVER_equal(in_b.m_ptr[verif_ghost_K].m_data[verif_ghost_J], verif_ghost_src), "a write to the copy is not visible through the source");
  }
  /* destruction of both values: nothing leaked, nothing freed twice */
  if (in_a.m_ptr) free(in_a.m_ptr);
  if (in_b.m_ptr) free(in_b.m_ptr);
  VERIF_REACH();
}

/* a = a */
void h_array_copy_assign_self(void)
{
  ARRAY_OWN_T in_a;
  make_wf(&in_a);
  verif_ghost_K = nondet_size_t();
  verif_ghost_J = nondet_unsigned();
  __CPROVER_assume(verif_ghost_J < DIMS_OUT);
  verif_old_o_size = in_a.m_size;
  verif_old_o_ptr = in_a.m_ptr;
  if (verif_ghost_K < in_a.m_size) verif_ghost_src = in_a.m_ptr[verif_ghost_K].m_data[verif_ghost_J];
  ARRAY_OWN_T *r = array_copy_assign(&in_a, &in_a);
  (void)r;
  if (in_a.m_ptr) free(in_a.m_ptr);
  VERIF_REACH();
}

/* copy construction */
void h_array_copy_ctor(void)
{
  ARRAY_OWN_T in_a, in_b;
  make_wf(&in_b);
  verif_ghost_K = nondet_size_t();
  verif_ghost_J = nondet_unsigned();
  __CPROVER_assume(verif_ghost_J < DIMS_OUT);
  verif_old_o_size = in_b.m_size;
  verif_old_o_ptr = in_b.m_ptr;
  if (verif_ghost_K < in_b.m_size) verif_ghost_src = in_b.m_ptr[verif_ghost_K].m_data[verif_ghost_J];
  in_a.m_size = nondet_u64();   /* raw storage before construction */
  in_a.m_ptr = 0;
  array_copy_ctor(&in_a, &in_b);
  if (verif_ghost_K < in_a.m_size) {
    in_a.m_ptr[verif_ghost_K].m_data[verif_ghost_J] = nondet_OUT_SCALAR_T();
    __CPROVER_assert(__CPROVER_equal(in_b.m_ptr[verif_ghost_K].m_data[verif_ghost_J], verif_ghost_src), "a write to the copy is not visible through the source");
  }
  if (in_a.m_ptr) free(in_a.m_ptr);
  if (in_b.m_ptr) free(in_b.m_ptr);
  VERIF_REACH();
}

void h_array_default_ctor(void) { ARRAY_OWN_T in_a; in_a.m_size = nondet_u64(); in_a.m_ptr = (OUT_VEC_T *)nondet_size_t(); array_default_ctor(&in_a); VERIF_REACH(); }
void h_array_size_ctor(void)
{
  ARRAY_OWN_T in_a; in_a.m_size = nondet_u64(); in_a.m_ptr = 0;
  size_t in_n = nondet_size_t();
  verif_ghost_K = nondet_size_t(); verif_ghost_J = nondet_unsigned();
  array_size_ctor(&in_a, in_n);
  if (in_a.m_ptr) free(in_a.m_ptr);
  VERIF_REACH();
}
void h_array_adopt_ctor(void)
{
  ARRAY_OWN_T in_a; in_a.m_size = nondet_u64(); in_a.m_ptr = 0;
  size_t in_n = nondet_size_t();
  __CPROVER_assume(in_n <= ARRAY_OWN_MAX);
  OUT_VEC_T *in_p = (OUT_VEC_T *)malloc(in_n * sizeof(OUT_VEC_T));
  verif_old_o_ptr = in_p;
  array_adopt_ctor(&in_a, in_n, &in_p);
  __CPROVER_assert(in_p == 0, "the moved-from unique_ptr is empty");
  if (in_a.m_ptr) free(in_a.m_ptr);
  VERIF_REACH();
}
