OUT_SCALAR_T nondet_OUT_SCALAR_T(void);
static void copy_ghosts(ND_SIZE_T t)
{
  for (unsigned q = 0; q < DIMS_OUT; q++) verif_src_value.m_data[q] = nondet_OUT_SCALAR_T();
  verif_src_calls = 0;
  verif_src_arg_ok = 1;
  verif_t = t;
  verif_ghost_G = nondet_size_t();
  verif_ghost_q = nondet_unsigned();
  verif_old_cell = nondet_OUT_SCALAR_T();
  verif_res_cells = nondet_size_t();
}
static ND_SIZE_T nondet_nd(void) { ND_SIZE_T v; for (unsigned k = 0; k < DIMS_IN; k++) v.m_data[k] = nondet_size_t(); return v; }
#if COPY_LAYER == 2
void h_morton_copy_elem(void)
{
  ND_SIZE_T in_sizes = nondet_nd(), in_t = nondet_nd();
  copy_ghosts(in_t);
  verif_ghost_m = nondet_size_t();
  verif_b_size = nondet_size_t();
  morton_copy_elem(0, in_sizes, in_t);
  VERIF_REACH();
}
#elif COPY_LAYER == 1
void h_strided_copy_elem(void)
{
  ND_SIZE_T in_sizes = nondet_nd(), in_t = nondet_nd();
  copy_ghosts(in_t);
  strided_copy_elem(0, in_sizes, in_t);
  VERIF_REACH();
}
#endif

#if COPY_LAYER == 3
void h_hilbert_copy_elem(void)
{
  ND_SIZE_T in_sizes = nondet_nd(), in_t = nondet_nd();
  copy_ghosts(in_t);
  __CPROVER_assume(H_SIZES_OK(in_sizes) && in_t.m_data[0] < in_sizes.m_data[0] && in_t.m_data[1] < in_sizes.m_data[1]);
  IN_VEC_T c; c.m_data[0] = in_t.m_data[0]; c.m_data[1] = in_t.m_data[1];
  verif_expected_idx = hilbert_calculate_index(c, in_sizes);   /* the same index function the lookup uses */
  hilbert_copy_elem(0, in_sizes, in_t);
  VERIF_REACH();
}
#endif
