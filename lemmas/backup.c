IN_SCALAR_T nondet_IN_SCALAR_T(void);
OUT_SCALAR_T nondet_OUT_SCALAR_T(void);
static IN_VEC_T nondet_in_vec(void) { IN_VEC_T v; for (unsigned k = 0; k < DIMS_IN; k++) v.m_data[k] = nondet_IN_SCALAR_T(); return v; }
static OUT_VEC_T nondet_out_vec(void) { OUT_VEC_T v; for (unsigned k = 0; k < DIMS_OUT; k++) v.m_data[k] = nondet_OUT_SCALAR_T(); return v; }
void h_backup_at(void)
{
  BACKUP_SELF_T in_self;
  in_self.m_min = nondet_in_vec();
  in_self.m_max = nondet_in_vec();
  in_self.m_default = nondet_out_vec();
  IN_VEC_T in_c = nondet_in_vec();
  verif_b_result = nondet_out_vec();
  verif_b_calls = 0;
  OUT_VEC_T r = backup_at(&in_self, in_c);
  (void)r;
  VERIF_REACH();
}
