/* Proof harnesses for binary_io.hpp */
static VERIF_ISTREAM nondet_istream(void)
{
  VERIF_ISTREAM s;
  s.len = nondet_size_t();
  __CPROVER_assume(s.len <= VERIF_STREAM_MAX);
  s.buf = 0;   /* the byte buffer is introduced by the contract's is_fresh(fs->buf, fs->len) */
  s.pos = nondet_size_t();
  __CPROVER_assume(s.pos <= s.len);
  s.failbit = 0;
  s.eofbit = 0;
  return s;
}
static VERIF_OSTREAM nondet_ostream(void)
{
  VERIF_OSTREAM s;
  s.cap = nondet_size_t();
  __CPROVER_assume(s.cap <= VERIF_STREAM_MAX);
  s.buf = 0;
  s.len = nondet_size_t();
  __CPROVER_assume(s.len <= s.cap);
  return s;
}
#define H_READ(name, fn, T) void name(void) { VERIF_ISTREAM in_fs = nondet_istream(); verif_thrown = 0; T r = fn(&in_fs); (void)r; VERIF_REACH(); }
H_READ(h_read_binary_u32, read_binary_u32, uint32_t)
H_READ(h_read_binary_u64, read_binary_u64, uint64_t)
H_READ(h_read_binary_f32, read_binary_f32, float)
H_READ(h_read_binary_f64, read_binary_f64, double)

void h_read_io_header(void)
{
  VERIF_ISTREAM in_fs = nondet_istream();
  uint32_t in_hdr = nondet_u32();
  verif_thrown = 0;
  read_io_header(&in_fs, in_hdr);
  VERIF_REACH();
}
void h_read_io_footer(void)
{
  VERIF_ISTREAM in_fs = nondet_istream();
  uint32_t in_ftr = nondet_u32();
  verif_thrown = 0;
  read_io_footer(&in_fs, in_ftr);
  VERIF_REACH();
}
void h_write_io_header(void)
{
  VERIF_OSTREAM in_fs = nondet_ostream();
  uint32_t in_hdr = nondet_u32();
  write_io_header(&in_fs, in_hdr);
  VERIF_REACH();
}
void h_write_io_footer(void)
{
  VERIF_OSTREAM in_fs = nondet_ostream();
  uint32_t in_ftr = nondet_u32();
  write_io_footer(&in_fs, in_ftr);
  VERIF_REACH();
}
/* constants of the code equal the golden layout of the pinned revision */
void h_io_constants(void)
{
  __CPROVER_assert(VERIF_MAGIC_HEADER == GOLDEN_MAGIC_HEADER, "MAGIC_HEADER is the pinned revision's");
  __CPROVER_assert(VERIF_MAGIC_FOOTER == GOLDEN_MAGIC_FOOTER, "MAGIC_FOOTER is the pinned revision's");
  VERIF_REACH();
}
