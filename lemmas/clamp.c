IN_SCALAR_T nondet_IN_SCALAR_T(void);
OUT_SCALAR_T nondet_OUT_SCALAR_T(void);
static IN_VEC_T nondet_in_vec(void) { IN_VEC_T v; for (unsigned k = 0; k < DIMS_IN; k++) v.m_data[k] = nondet_IN_SCALAR_T(); return v; }
static OUT_VEC_T nondet_out_vec(void) { OUT_VEC_T v; for (unsigned k = 0; k < DIMS_OUT; k++) v.m_data[k] = nondet_OUT_SCALAR_T(); return v; }

void h_clamp_adjust(void)
{
  CLAMP_SELF_T in_self;
  in_self.m_min = nondet_in_vec();
  in_self.m_max = nondet_in_vec();
  IN_VEC_T in_c = nondet_in_vec();
  IN_VEC_T r = clamp_adjust(&in_self, in_c);
  (void)r;
  VERIF_REACH();
}

void h_clamp_at(void)
{
  CLAMP_SELF_T in_self;
  in_self.m_min = nondet_in_vec();
  in_self.m_max = nondet_in_vec();
  IN_VEC_T in_c = nondet_in_vec();
  verif_b_result = nondet_out_vec();
  verif_b_calls = 0;
  OUT_VEC_T r = clamp_at(&in_self, in_c);
  (void)r;
  VERIF_REACH();
}

#ifdef VERIF_CLAMP_OVER_STORAGE
/* C10 second sentence: with array-backed storage and a box inside the extents, the clamped coordinate
 * satisfies the precondition of the storage-order layer's lookup contract (c[k] < extent[k]). */
void h_clamp_safe(void)
{
  CLAMP_SELF_T in_self;
  in_self.m_min = nondet_in_vec();
  in_self.m_max = nondet_in_vec();
  IN_VEC_T in_c = nondet_in_vec();
  IN_VEC_T in_extent = nondet_in_vec();
  for (unsigned k = 0; k < DIMS_IN; k++)
    __CPROVER_assume(in_self.m_min.m_data[k] >= 0 && in_self.m_min.m_data[k] <= in_self.m_max.m_data[k] && in_self.m_max.m_data[k] < in_extent.m_data[k]);
  verif_b_result = nondet_out_vec();
  verif_b_calls = 0;
  clamp_at(&in_self, in_c);
  for (unsigned k = 0; k < DIMS_IN; k++)
    __CPROVER_assert(verif_b_arg[0].m_data[k] >= 0 && verif_b_arg[0].m_data[k] < in_extent.m_data[k], "clamped coordinate lies inside the extents");
  VERIF_REACH();
}
#endif
