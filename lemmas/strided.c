/* Proof harnesses for the row-major unit. */
IN_SCALAR_T nondet_IN_SCALAR_T(void);
VERIF_SIZE_T nondet_VERIF_SIZE_T(void);

static IN_VEC_T nondet_in_vec(void)
{
  IN_VEC_T v;
  for (unsigned k = 0; k < DIMS_IN; k++) v.m_data[k] = nondet_IN_SCALAR_T();
  return v;
}
static ND_SIZE_T nondet_nd_size(void)
{
  ND_SIZE_T v;
  for (unsigned k = 0; k < DIMS_IN; k++) v.m_data[k] = nondet_VERIF_SIZE_T();
  return v;
}

/* lookup against CONTRACT_strided_at */
void h_strided_at(void)
{
  STRIDED_SELF_T in_self;
  in_self.m_sizes = nondet_nd_size();
  IN_VEC_T in_c = nondet_in_vec();
  verif_b_size = nondet_VERIF_SIZE_T();
  verif_b_result = (OUT_VEC_PTR_T)nondet_size_t();
  verif_b_calls = 0;
  OUT_VEC_PTR_T r = strided_at(&in_self, in_c);
  (void)r;
  VERIF_REACH();
}

#ifdef VERIF_STRIDED_BOUND
/* C01: the row-major map is injective on the box (two lookups through the contract) */
void h_strided_injective(void)
{
  STRIDED_SELF_T in_self;
  in_self.m_sizes = nondet_nd_size();
  IN_VEC_T in_c1 = nondet_in_vec();
  IN_VEC_T in_c2 = nondet_in_vec();
  verif_b_size = nondet_VERIF_SIZE_T();
  __CPROVER_assume(STRIDED_INV(&in_self));
  __CPROVER_assume(STRIDED_IN_RANGE(&in_self, in_c1) && STRIDED_IN_RANGE(&in_self, in_c2));
  verif_b_calls = 0;
  strided_at(&in_self, in_c1);
  VERIF_SIZE_T i1 = verif_b_arg[0];
  verif_b_calls = 0;
  strided_at(&in_self, in_c2);
  VERIF_SIZE_T i2 = verif_b_arg[0];
  if (i1 == i2)
    for (unsigned j = 0; j < DIMS_IN; j++)
      __CPROVER_assert(in_c1.m_data[j] == in_c2.m_data[j], "equal row-major positions imply equal coordinates");
  VERIF_REACH();
}
#endif

void h_strided_alloc_copy(void) { ND_SIZE_T in_sizes = nondet_nd_size(); size_t r = strided_alloc_size_copy(in_sizes); (void)r; VERIF_REACH(); }
void h_strided_alloc_ctor(void) { ND_SIZE_T in_sizes = nondet_nd_size(); size_t r = strided_alloc_size_ctor(in_sizes); (void)r; VERIF_REACH(); }
void h_strided_alloc_conf(void) { ND_SIZE_T in_sizes = nondet_nd_size(); size_t r = strided_alloc_size_conf(in_sizes); (void)r; VERIF_REACH(); }
