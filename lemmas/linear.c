#include <float.h>
#define VERIF_IN_MAX ((IN_SCALAR_T)(sizeof(IN_SCALAR_T) == 4 ? FLT_MAX : DBL_MAX))
#define VERIF_OUT_MAX ((OUT_SCALAR_T)(sizeof(OUT_SCALAR_T) == 4 ? FLT_MAX : DBL_MAX))
IN_SCALAR_T nondet_IN_SCALAR_T(void);
OUT_SCALAR_T nondet_OUT_SCALAR_T(void);
B_IN_SCALAR_T nondet_B_IN_SCALAR_T(void);
static IN_VEC_T nondet_in_vec(void) { IN_VEC_T v; for (unsigned k = 0; k < DIMS_IN; k++) v.m_data[k] = nondet_IN_SCALAR_T(); return v; }

static void setup_common(IN_VEC_T in_c)
{
  for (unsigned k = 0; k < DIMS_IN; k++) {
    __CPROVER_assume(in_c.m_data[k] >= (IN_SCALAR_T)0 && in_c.m_data[k] <= LIN_MAX);
    verif_cell_base.m_data[k] = (B_IN_SCALAR_T)in_c.m_data[k];
  }
  for (unsigned n = 0; n < NB_COUNT; n++) verif_b_hits[n] = 0;
  verif_b_calls = 0;
  verif_ghost_nb = nondet_unsigned();
  verif_ghost_q = nondet_unsigned();
  __CPROVER_assume(verif_ghost_nb < NB_COUNT && verif_ghost_q < DIMS_OUT);
}

/* obligations 1 and 2: all coordinates of the domain, all finite data */
void h_linear_at(void)
{
  LINEAR_SELF_T in_self;
  IN_VEC_T in_c = nondet_in_vec();
  setup_common(in_c);
  for (unsigned n = 0; n < NB_COUNT; n++)
    for (unsigned q = 0; q < DIMS_OUT; q++) {
      OUT_SCALAR_T v = nondet_OUT_SCALAR_T();
      __CPROVER_assume(v >= -VERIF_OUT_MAX && v <= VERIF_OUT_MAX);   /* finite, not NaN */
      /* ... and still finite after conversion to the coordinate precision (a double beyond FLT_MAX becomes inf, and 0*inf is NaN) */
      __CPROVER_assume((IN_SCALAR_T)v >= -VERIF_IN_MAX && (IN_SCALAR_T)v <= VERIF_IN_MAX);
      verif_b_table[n].m_data[q] = v;
    }
  OUT_VEC_T r = linear_at(&in_self, in_c);
  (void)r;
  VERIF_REACH();
}

#ifdef VERIF_LIN_WEIGHTS
/* obligation 3: basis data, fractional parts in {0, 1/4, 1/2, 3/4}, symbolic cell */
void h_linear_weights(void)
{
  LINEAR_SELF_T in_self;
  IN_VEC_T in_c;
  for (unsigned k = 0; k < DIMS_IN; k++) {
    unsigned in_cell = nondet_unsigned(), in_quarter = nondet_unsigned();
    /* cell + quarter must be exact in the coordinate type: 24-bit significand for float, and for double the cell
     * index deliberately exceeds what float can represent together with the fraction */
    __CPROVER_assume(in_cell <= (sizeof(IN_SCALAR_T) == 4 ? 2097151u : 8388606u) && in_quarter < 4);
    in_c.m_data[k] = (IN_SCALAR_T)in_cell + (IN_SCALAR_T)in_quarter * (IN_SCALAR_T)0.25;
  }
  setup_common(in_c);
  for (unsigned n = 0; n < NB_COUNT; n++)
    for (unsigned q = 0; q < DIMS_OUT; q++)
      verif_b_table[n].m_data[q] = (n == verif_ghost_nb) ? (OUT_SCALAR_T)1 : (OUT_SCALAR_T)0;
  OUT_VEC_T r = linear_at(&in_self, in_c);
  (void)r;
  VERIF_REACH();
}
#endif

void h_linear_index_helper(void)
{
  LINEAR_SELF_T in_self;
  B_IN_VEC_T in_coord;
  for (unsigned k = 0; k < DIMS_IN; k++) in_coord.m_data[k] = nondet_B_IN_SCALAR_T();
  size_t in_n = nondet_size_t();
  B_IN_VEC_T r = linear_index_helper(&in_self, in_coord, in_n);
  (void)r;
  VERIF_REACH();
}
