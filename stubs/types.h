/* C images of the covfie value types used by extracted functions.  covfie::array::array<T,N> is
 * `T m_data[N]` and nothing else (lib/core/covfie/core/array.hpp), so the C struct has the same layout.
 * The cell binds IN_SCALAR_T, DIMS_IN (contravariant input), OUT_SCALAR_T, DIMS_OUT (covariant output). */
#ifndef VERIF_TYPES_H
#define VERIF_TYPES_H
#ifdef DIMS_IN
#ifndef IN_SCALAR_T
#define IN_SCALAR_T size_t
#endif
typedef struct { IN_SCALAR_T m_data[DIMS_IN]; } IN_VEC_T;  /* contravariant_input_t::vector_t */
#ifndef VERIF_SIZE_T
#define VERIF_SIZE_T size_t   /* std::size_t; bound to a narrower type only in the width-reduced cells */
#endif
typedef struct { VERIF_SIZE_T m_data[DIMS_IN]; } ND_SIZE_T; /* utility::nd_size<DIMS_IN> */
#endif
#ifdef DIMS_OUT
#ifndef OUT_SCALAR_T
#define OUT_SCALAR_T float
#endif
typedef struct { OUT_SCALAR_T m_data[DIMS_OUT]; } OUT_VEC_T; /* covariant_output_t::vector_t (object type) */
#endif
#endif
