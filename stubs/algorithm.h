/* Contract stubs for the libstdc++ algorithms used by extracted code (ASSUMPTIONS about libstdc++). */
/* *std::max_element(b, e): a greatest element of a non-empty range */
static size_t verif_max_element(const size_t *a, size_t n)
{
  size_t m = a[0];
  for (size_t k = 1; k < n; k++)
    if (a[k] > m) m = a[k];
  return m;
}
/* std::accumulate(b, e, init, std::multiplies<size_t>()): init * a[0] * ... * a[n-1] in size_t arithmetic */
static size_t verif_accumulate_mul(const size_t *a, size_t n, size_t init)
{
  size_t r = init;
  for (size_t k = 0; k < n; k++)
    r = r * a[k];
  return r;
}
