/* Abstract inner backend B (rule R7): the modular abstraction of "whatever stack lies beneath".
 * A layer verified against this stub is verified for every conforming inner stack.
 *   B_IN_T            argument type of B::at          (bound by the unit's contracts header)
 *   B_RET_T           result type of B::at
 *   VERIF_B_DOMAIN(x) B's precondition (asserted at every call: the layer must establish it)
 *   VERIF_B_VALUE(x)  B's result for argument x (a ghost chosen by the harness)
 * Ghost state: number of calls and the arguments of the first VERIF_B_MAXCALLS calls. */
#ifndef VERIF_B_MAXCALLS
#define VERIF_B_MAXCALLS 1
#endif
unsigned verif_b_calls;                 /* ghost */
B_IN_T verif_b_arg[VERIF_B_MAXCALLS];   /* ghost */
B_RET_T backend_at(B_IN_T x)
{
  __CPROVER_assert(VERIF_B_DOMAIN(x), "backend precondition: argument inside the backend's domain");
  if (verif_b_calls < VERIF_B_MAXCALLS)
    verif_b_arg[verif_b_calls] = x;
  verif_b_calls++;
  return VERIF_B_VALUE(x);
}
#define VERIF_B_GHOSTS verif_b_calls, __CPROVER_object_whole(verif_b_arg)
