/* Abstract serialisation of the inner stack B (the modular abstraction for C06/C07/C08 layer framing).
 *   B::write_binary appends exactly verif_b_image_len bytes (content arbitrary: havocked) and does nothing else;
 *   B::read_binary returns normally iff the ghost says B's image at the current position is well-formed and
 *   completely present; it then consumes exactly verif_b_image_len bytes and returns the ghost value.
 * The round-trip / same-bytes facts about B itself are the induction hypothesis of the stack argument. */
/* The inner stack is array-like: its configuration is one extent (utility::nd_size<1>), an arbitrary value carried by
 * the owning data (ghost field conf0); code that consults be.get_configuration() sees that arbitrary value. */
typedef struct { size_t m_data[1]; } B_CONF_T;
typedef struct { unsigned token; size_t conf0; } B_OWN_T;
#define VERIF_B_CONF_IS_ND1 1
static B_CONF_T backend_get_configuration(const B_OWN_T *b) { B_CONF_T c; c.m_data[0] = b->conf0; return c; }
size_t verif_b_image_len;   /* ghost */
_Bool verif_b_image_ok;     /* ghost */
B_OWN_T verif_b_loaded;     /* ghost */
size_t verif_b_read_pos, verif_b_write_pos;        /* ghost: where B was invoked */
unsigned verif_b_read_calls, verif_b_write_calls;  /* ghost */
unsigned verif_b_written_token;                    /* ghost */
static B_OWN_T backend_read_binary(VERIF_ISTREAM *fs)
{
  if (verif_thrown) { B_OWN_T d0 = {0}; return d0; }   /* an exception thrown while evaluating the argument: B is never entered */
  verif_b_read_calls++;
  verif_b_read_pos = fs->pos;
  if (!(verif_b_image_ok && fs->len - fs->pos >= verif_b_image_len)) {
    verif_thrown = 1;
    B_OWN_T d = {0};
    return d;
  }
  fs->pos += verif_b_image_len;
  return verif_b_loaded;
}
static void backend_write_binary(VERIF_OSTREAM *fs, const B_OWN_T *o)
{
  __CPROVER_assert(fs->cap - fs->len >= verif_b_image_len, "ghost output buffer large enough for B's image (harness obligation)");
  verif_b_write_calls++;
  verif_b_write_pos = fs->len;
  verif_b_written_token = o->token;
  /* the bytes of B's image are arbitrary: the ghost output buffer beyond `len` is unconstrained already, so B's
   * write is modelled by claiming the region (no byte is constrained, none before `len` is touched) */
  fs->len += verif_b_image_len;
}
#define VERIF_B_IO_GHOSTS verif_b_read_calls, verif_b_read_pos, verif_b_write_calls, verif_b_write_pos, verif_b_written_token
