/* Ghost byte-stream model of std::istream / std::ostream (rule R10).  ASSUMED contract of iostream:
 *  - istream::read(p, n) [istream.unformatted]: if n bytes are available (and the stream has not failed) they
 *    are copied and the position advances; otherwise the available bytes are copied, failbit|eofbit are set
 *    and the rest of the destination is left untouched (indeterminate if it was an uninitialised local).
 *  - ostream::write(p, n) appends n bytes; output never fails (no I/O errors are modelled).
 *  - good()/eof()/fail()/bad() report the state bits; operator!() is fail(). */
#ifndef VERIF_STREAM_H
#define VERIF_STREAM_H
typedef struct { const unsigned char *buf; size_t len; size_t pos; _Bool failbit; _Bool eofbit; } VERIF_ISTREAM;
typedef struct { unsigned char *buf; size_t cap; size_t len; } VERIF_OSTREAM;

#define ISTREAM_AVAIL(fs) ((fs)->len - (fs)->pos)
#define ISTREAM_VALID(fs) ((fs)->pos <= (fs)->len && (fs)->len <= VERIF_STREAM_MAX)
#ifndef VERIF_STREAM_MAX
#define VERIF_STREAM_MAX ((size_t)1 << 40)
#endif

static void istream_read(VERIF_ISTREAM *fs, char *p, size_t n)
{
  if (!fs->failbit && ISTREAM_AVAIL(fs) >= n) {
    memcpy(p, fs->buf + fs->pos, n);
    fs->pos += n;
  } else {
    if (!fs->failbit) {
      size_t k = ISTREAM_AVAIL(fs);
      if (k > 0) memcpy(p, fs->buf + fs->pos, k);
      fs->pos = fs->len;
      fs->eofbit = 1;
    }
    fs->failbit = 1;
  }
}
/* istream::peek(): next byte without extracting it, or traits::eof() (and eofbit) at the end / on a failed stream */
static int istream_peek(VERIF_ISTREAM *fs)
{
  if (fs->failbit || fs->eofbit) return -1;
  if (fs->pos >= fs->len) { fs->eofbit = 1; return -1; }
  return (int)fs->buf[fs->pos];
}
static _Bool istream_good(const VERIF_ISTREAM *fs) { return !fs->failbit && !fs->eofbit; }
static _Bool istream_eof(const VERIF_ISTREAM *fs) { return fs->eofbit; }
static _Bool istream_fail(const VERIF_ISTREAM *fs) { return fs->failbit; }
static _Bool istream_bad(const VERIF_ISTREAM *fs) { return 0; }

static void ostream_write(VERIF_OSTREAM *fs, const char *p, size_t n)
{
  __CPROVER_assert(fs->cap - fs->len >= n, "ghost output buffer large enough (harness obligation)");
  memcpy(fs->buf + fs->len, p, n);
  fs->len += n;
}

/* little-endian words of the byte stream (typed loads: the verifier's byte order is the host's, x86-64) */
#define LE32_AT(b, o) (*(const uint32_t *)((b) + (o)))
#define LE64_AT(b, o) (*(const uint64_t *)((b) + (o)))
#endif
