/* _pdep_u64 per the Intel SDM pseudocode (PDEP — Parallel Bits Deposit):
 *   TEMP := SRC1; MASK := SRC2; DEST := 0; m := 0; k := 0;
 *   DO WHILE m < OperandSize: IF MASK[m] = 1 THEN DEST[m] := TEMP[k]; k := k + 1; FI; m := m + 1; OD
 * ASSUMPTION: the hardware instruction behaves as documented. */
unsigned long long _pdep_u64(unsigned long long src, unsigned long long mask)
{
  unsigned long long dest = 0;
  unsigned k = 0;
  for (unsigned m = 0; m < 64; m++) {
    if ((mask >> m) & 1ULL) {
      dest |= ((src >> k) & 1ULL) << m;
      k++;
    }
  }
  return dest;
}
