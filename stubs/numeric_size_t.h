/* binds the numeric templates at T = std::size_t (the instantiation the storage-order layers use) */
#define T size_t
#define W 64
#define VERIF_IPOW_SMALL_E 1
