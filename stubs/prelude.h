/* Common prelude of every generated C unit.  Hand-written; contains no covfie logic. */
#ifndef VERIF_PRELUDE_H
#define VERIF_PRELUDE_H
#include <stdint.h>
#include <stddef.h>
#include <string.h>
#include <limits.h>
#include <math.h>
#include <stdlib.h>
#include <stdbool.h>

/* C++ exceptions (rule R9/R14): ghost flag + early return */
int verif_thrown;
#define VERIF_THROW() { verif_thrown = 1; return VERIF_DUMMY_RET; }
#define VERIF_PROPAGATE() { if (verif_thrown) return VERIF_DUMMY_RET; }

/* library assert (rule R15): obligation in the debug flavour, removed by -DNDEBUG like <cassert> */
#undef assert
#ifdef NDEBUG
#define assert(e) ((void)0)
#else
#define assert(e) __CPROVER_assert((e), "library assert: " #e)
#endif

/* vacuity guard: every harness ends with this; it must be REFUTED */
#define VERIF_REACH() __CPROVER_assert(0, "verif-reach-canary")

#define VERIF_ISPOW2(x) ((x) != 0 && (((x) & ((x) - 1)) == 0))

/* quantifier-free "for all k < n" / "exists k < n" over a template constant n <= 5 (expanded by cpp) */
#define VERIF_ALL_1(P, ...) (P(0, __VA_ARGS__))
#define VERIF_ALL_2(P, ...) (P(0, __VA_ARGS__) && P(1, __VA_ARGS__))
#define VERIF_ALL_3(P, ...) (P(0, __VA_ARGS__) && P(1, __VA_ARGS__) && P(2, __VA_ARGS__))
#define VERIF_ALL_4(P, ...) (P(0, __VA_ARGS__) && P(1, __VA_ARGS__) && P(2, __VA_ARGS__) && P(3, __VA_ARGS__))
#define VERIF_ALL_5(P, ...) (P(0, __VA_ARGS__) && P(1, __VA_ARGS__) && P(2, __VA_ARGS__) && P(3, __VA_ARGS__) && P(4, __VA_ARGS__))
#define VERIF_ANY_1(P, ...) (P(0, __VA_ARGS__))
#define VERIF_ANY_2(P, ...) (P(0, __VA_ARGS__) || P(1, __VA_ARGS__))
#define VERIF_ANY_3(P, ...) (P(0, __VA_ARGS__) || P(1, __VA_ARGS__) || P(2, __VA_ARGS__))
#define VERIF_ANY_4(P, ...) (P(0, __VA_ARGS__) || P(1, __VA_ARGS__) || P(2, __VA_ARGS__) || P(3, __VA_ARGS__))
#define VERIF_ANY_5(P, ...) (P(0, __VA_ARGS__) || P(1, __VA_ARGS__) || P(2, __VA_ARGS__) || P(3, __VA_ARGS__) || P(4, __VA_ARGS__))
/* a second, identical family so that a "for all rows" can contain a "for all columns" (cpp does not re-expand a macro inside itself) */
#define VERIF_ALLB_1(P, ...) (P(0, __VA_ARGS__))
#define VERIF_ALLB_2(P, ...) (P(0, __VA_ARGS__) && P(1, __VA_ARGS__))
#define VERIF_ALLB_3(P, ...) (P(0, __VA_ARGS__) && P(1, __VA_ARGS__) && P(2, __VA_ARGS__))
#define VERIF_ALLB_4(P, ...) (P(0, __VA_ARGS__) && P(1, __VA_ARGS__) && P(2, __VA_ARGS__) && P(3, __VA_ARGS__))
#define VERIF_ALLB_5(P, ...) (P(0, __VA_ARGS__) && P(1, __VA_ARGS__) && P(2, __VA_ARGS__) && P(3, __VA_ARGS__) && P(4, __VA_ARGS__))
#define VERIF_ALLB(n, P, ...) VERIF_CAT(VERIF_ALLB_, n)(P, __VA_ARGS__)
#define VERIF_CAT_(a, b) a##b
#define VERIF_CAT(a, b) VERIF_CAT_(a, b)
#define VERIF_ALL(n, P, ...) VERIF_CAT(VERIF_ALL_, n)(P, __VA_ARGS__)
#define VERIF_ANY(n, P, ...) VERIF_CAT(VERIF_ANY_, n)(P, __VA_ARGS__)

/* R3: <cmath> functions that C++ overloads on the argument type.  std::NAME(x) selects the float overload for a
 * float argument, long double for long double, and the double overload otherwise (integers promote to double);
 * two-argument functions decide on the usual arithmetic conversion of both arguments.  _Generic reproduces that. */
#define VERIF_STDM1(name, a) _Generic((a), float: name##f, long double: name##l, default: name)(a)
#define VERIF_STDM2(name, a, b) _Generic((a) + (b), float: name##f, long double: name##l, default: name)((a), (b))
#define VERIF_STDM_trunc(a) VERIF_STDM1(trunc, a)
#define VERIF_STDM_floor(a) VERIF_STDM1(floor, a)
#define VERIF_STDM_ceil(a) VERIF_STDM1(ceil, a)
#define VERIF_STDM_round(a) VERIF_STDM1(round, a)
#define VERIF_STDM_rint(a) VERIF_STDM1(rint, a)
#define VERIF_STDM_nearbyint(a) VERIF_STDM1(nearbyint, a)
#define VERIF_STDM_lrint(a) VERIF_STDM1(lrint, a)
#define VERIF_STDM_lround(a) VERIF_STDM1(lround, a)
#define VERIF_STDM_llrint(a) VERIF_STDM1(llrint, a)
#define VERIF_STDM_llround(a) VERIF_STDM1(llround, a)
#define VERIF_STDM_fabs(a) VERIF_STDM1(fabs, a)
#define VERIF_STDM_sqrt(a) VERIF_STDM1(sqrt, a)
#define VERIF_STDM_fmin(a, b) VERIF_STDM2(fmin, a, b)
#define VERIF_STDM_fmax(a, b) VERIF_STDM2(fmax, a, b)
#define VERIF_STDM_fmod(a, b) VERIF_STDM2(fmod, a, b)
#define VERIF_STDM_copysign(a, b) VERIF_STDM2(copysign, a, b)
/* R16: libstdc++ algorithms on contiguous ranges of std::size_t (ASSUMED contracts of <numeric>/<algorithm>):
 * std::accumulate(b, e, init, std::multiplies<std::size_t>()): T acc = init; for each x: acc = (T)((size_t)acc * x)
 *   -- T is the TYPE OF init, as in the standard ([accumulate]);
 * *std::max_element(b, e): a greatest element of a non-empty range */
#define VERIF_ACCUMULATE_MUL(b, e, init) \
  ({ __typeof__(init) verif_acc_ = (init); for (const size_t *verif_it_ = (b); verif_it_ != (e); ++verif_it_) verif_acc_ = (__typeof__(init))((size_t)verif_acc_ * *verif_it_); verif_acc_; })
#define VERIF_MAX_ELEMENT(b, e) \
  ({ const size_t *verif_b_ = (b); size_t verif_m_ = *verif_b_; for (const size_t *verif_it_ = verif_b_ + 1; verif_it_ < (e); ++verif_it_) if (verif_m_ < *verif_it_) verif_m_ = *verif_it_; verif_m_; })
#define VERIF_ARRAY_END(x) ((x).m_data + sizeof((x).m_data) / sizeof((x).m_data[0]))
#define VERIF_ARRAY_LEN(x) (sizeof((x).m_data) / sizeof((x).m_data[0]))

/* std::min / std::max / std::clamp on values of one type [alg.min.max], [alg.clamp] */
#define VERIF_STD_min(a, b) ((b) < (a) ? (b) : (a))
#define VERIF_STD_max(a, b) ((a) < (b) ? (b) : (a))

uint8_t nondet_u8(void);
uint16_t nondet_u16(void);
uint32_t nondet_u32(void);
uint64_t nondet_u64(void);
int nondet_int(void);
unsigned nondet_unsigned(void);
size_t nondet_size_t(void);
float nondet_float(void);
double nondet_double(void);
_Bool nondet_bool(void);
#endif
